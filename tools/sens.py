#!/venv/bin/python
"""Sensitivity: hand-made mutants applied to a scratch copy of /repo (under /tmp,
removed afterwards); each must make the named check exit 1 within its quick budget.

usage: tools/sens.py [name-substring ...]      (no args: all)
"""

from __future__ import annotations

import os
import shutil
import subprocess
import sys
import time

VERIF = os.path.dirname(os.path.dirname(os.path.abspath(__file__)))
REPO = "/repo"

M = []


def mutant(prop, name, path, old, new, count=1):
    M.append((prop, name, path, old, new, count))


# ------------------------------------------------------------------ C20
mutant("C20", "seterr-without-finally", "src/vector/_compute/spatial/eta.py",
       '''    with numpy.errstate(all="ignore"):
        return v._wrap_result(
            _flavor_of(v),
            v._wrap_dispatched_function(function)(
                v.lib, *v.azimuthal.elements, *v.longitudinal.elements
            ),
            returns,
            1,
        )''',
       '''    old = numpy.seterr(all="ignore")
    out = v._wrap_result(
        _flavor_of(v),
        v._wrap_dispatched_function(function)(
            v.lib, *v.azimuthal.elements, *v.longitudinal.elements
        ),
        returns,
        1,
    )
    numpy.seterr(**old)
    return out''')
mutant("C20", "catch-warnings-in-dispatch", "src/vector/_compute/planar/rho.py",
       '''    with numpy.errstate(all="ignore"):''',
       '''    import warnings

    with warnings.catch_warnings(), numpy.errstate(all="ignore"):
        warnings.simplefilter("ignore")''')
mutant("C20", "scratch-buffer-reused", "src/vector/backends/numpy.py",
       '''            out = numpy.empty(_shape_of(result), dtype=dtype)
            i = 0
            for name in _coordinate_class_to_names[returns[0]]:
                out[name] = result[i]
                i += 1
            for name in _coordinate_class_to_names[returns[1]]:
                out[name] = result[i]
                i += 1
            return out.view(cls.ProjectionClass3D)

        elif (
            len(returns) == 3
            and isinstance(returns[0], type)
            and issubclass(returns[0], Azimuthal)
            and isinstance(returns[1], type)
            and issubclass(returns[1], Longitudinal)
            and isinstance(returns[2], type)
            and issubclass(returns[2], Temporal)
        ):
            result = _toarrays(result)
            dtype = []
            i = 0
            for name in _coordinate_class_to_names[returns[0]]:
                dtype.append((name, result[i].dtype))
                i += 1
            for name in _coordinate_class_to_names[returns[1]]:
                dtype.append((name, result[i].dtype))
                i += 1
            for name in _coordinate_class_to_names[returns[2]]:
                dtype.append((name, result[i].dtype))
                i += 1
            out = numpy.empty(_shape_of(result), dtype=dtype)
            i = 0
            for name in _coordinate_class_to_names[returns[0]]:
                out[name] = result[i]
                i += 1
            for name in _coordinate_class_to_names[returns[1]]:
                out[name] = result[i]
                i += 1
            for name in _coordinate_class_to_names[returns[2]]:
                out[name] = result[i]
                i += 1
            return out.view(cls.ProjectionClass4D)

        else:
            raise AssertionError(repr(returns))

    def _wrap_dispatched_function(self, func: typing.Callable) -> typing.Callable:  # type: ignore[type-arg]
        return func

    def __setitem__(self, where: typing.Any, what: typing.Any) -> None:
        return _setitem(self, where, what, False)


class MomentumNumpy3D''',
       '''            key = (tuple(_shape_of(result)), str(dtype))
            out = _SCRATCH.get(key)
            if out is None:
                out = _SCRATCH[key] = numpy.empty(_shape_of(result), dtype=dtype)
            i = 0
            for name in _coordinate_class_to_names[returns[0]]:
                out[name] = result[i]
                i += 1
            for name in _coordinate_class_to_names[returns[1]]:
                out[name] = result[i]
                i += 1
            return out.view(cls.ProjectionClass3D)

        elif (
            len(returns) == 3
            and isinstance(returns[0], type)
            and issubclass(returns[0], Azimuthal)
            and isinstance(returns[1], type)
            and issubclass(returns[1], Longitudinal)
            and isinstance(returns[2], type)
            and issubclass(returns[2], Temporal)
        ):
            result = _toarrays(result)
            dtype = []
            i = 0
            for name in _coordinate_class_to_names[returns[0]]:
                dtype.append((name, result[i].dtype))
                i += 1
            for name in _coordinate_class_to_names[returns[1]]:
                dtype.append((name, result[i].dtype))
                i += 1
            for name in _coordinate_class_to_names[returns[2]]:
                dtype.append((name, result[i].dtype))
                i += 1
            out = numpy.empty(_shape_of(result), dtype=dtype)
            i = 0
            for name in _coordinate_class_to_names[returns[0]]:
                out[name] = result[i]
                i += 1
            for name in _coordinate_class_to_names[returns[1]]:
                out[name] = result[i]
                i += 1
            for name in _coordinate_class_to_names[returns[2]]:
                out[name] = result[i]
                i += 1
            return out.view(cls.ProjectionClass4D)

        else:
            raise AssertionError(repr(returns))

    def _wrap_dispatched_function(self, func: typing.Callable) -> typing.Callable:  # type: ignore[type-arg]
        return func

    def __setitem__(self, where: typing.Any, what: typing.Any) -> None:
        return _setitem(self, where, what, False)


_SCRATCH: dict = {}


class MomentumNumpy3D''')
mutant("C20", "array-updates-global-behavior", "src/vector/backends/awkward_constructors.py",
       '''    assert 2 <= dimension <= 4, f"Dimension must be between 2-4, not {dimension}"

    return awkward.with_name(''',
       '''    assert 2 <= dimension <= 4, f"Dimension must be between 2-4, not {dimension}"
    awkward.behavior.update(vector.backends.awkward.behavior)

    return awkward.with_name(''')
mutant("C20", "register-not-idempotent", "src/vector/__init__.py",
       '''    awkward.behavior.update(vector.backends.awkward.behavior)
    _awkward_registered = True''',
       '''    awkward.behavior.update(vector.backends.awkward.behavior)
    awkward.behavior["__vector_registrations__"] = awkward.behavior.get("__vector_registrations__", 0) + 1
    _awkward_registered = True''')
mutant("C20", "module-global-current-flavor", "src/vector/_compute/planar/add.py",
       '''    with numpy.errstate(all="ignore"):
        handler = _handler_of(v1, v2)
        return handler._wrap_result(
            _flavor_of(v1, v2),''',
       '''    global _CURRENT
    with numpy.errstate(all="ignore"):
        handler = _handler_of(v1, v2)
        _CURRENT = _flavor_of(v1, v2)
        lib = _lib_of(v1, v2)
        return handler._wrap_result(
            _CURRENT if lib is not None else None,''')
mutant("C20", "printoptions-in-repr", "src/vector/backends/numpy.py",
       '''    name = type(array).__name__
    vanilla_array = array.view(numpy.ndarray)''',
       '''    name = type(array).__name__
    numpy.set_printoptions(precision=6)
    vanilla_array = array.view(numpy.ndarray)''')
# ------------------------------------------------------------------ C16
mutant("C16", "inplace-add-xy", "src/vector/_compute/planar/add.py",
       '''def xy_xy(lib, x1, y1, x2, y2):
    return (x1 + x2, y1 + y2)''',
       '''def xy_xy(lib, x1, y1, x2, y2):
    x1 += x2
    y1 += y2
    return (x1, y1)''')
mutant("C16", "inplace-scale-polar", "src/vector/_compute/planar/scale.py",
       '''def rhophi(lib, factor, rho, phi):''',
       '''def rhophi(lib, factor, rho, phi):
    if hasattr(rho, "shape") and getattr(rho, "ndim", 0) >= 1:
        rho *= lib.absolute(factor)
        return (rho, rectify(lib, phi + (-0.5 * (lib.sign(factor) - 1) * lib.pi)))''')
mutant("C16", "array-sets-behavior-on-operand", "src/vector/backends/awkward_constructors.py",
       '''    array_type = akarray.type''',
       '''    array_type = akarray.type
    if isinstance(args[0], awkward.Array) and not vector._awkward_registered:
        args[0].behavior = vector.backends.awkward.behavior''')
mutant("C16", "getitem-temporary-rename", "src/vector/backends/numpy.py",
       '''    else:
        out = numpy.ndarray.__getitem__(array, where)
        if not isinstance(out, numpy.void):
            return out
''',
       '''    else:
        saved = array.dtype.names
        array.dtype.names = tuple(n.upper() for n in saved)   # "protect" the names during raw indexing
        try:
            out = numpy.ndarray.__getitem__(array.view(numpy.ndarray), where)
        finally:
            array.dtype.names = saved
        if isinstance(out, numpy.ndarray):
            out = out.view(type(array))
        if not isinstance(out, numpy.void):
            return out
''')
# ------------------------------------------------------------------ C15
mutant("C15", "x-setter-swapped", "src/vector/backends/object.py",
       '''    @x.setter
    def x(self, x: float) -> None:
        self.azimuthal = AzimuthalObjectXY(x, self.y)

    @property
    def y(self) -> float:
        return super().y

    @y.setter
    def y(self, y: float) -> None:
        self.azimuthal = AzimuthalObjectXY(self.x, y)

    @property
    def rho(self) -> float:
        return super().rho

    @rho.setter
    def rho(self, rho: float) -> None:
        self.azimuthal = AzimuthalObjectRhoPhi(rho, self.phi)

    @property
    def phi(self) -> float:
        return super().phi

    @phi.setter
    def phi(self, phi: float) -> None:
        self.azimuthal = AzimuthalObjectRhoPhi(self.rho, phi)

    @property
    def z(self) -> float:
        return super().z

    @z.setter
    def z(self, z: float) -> None:
        self.longitudinal = LongitudinalObjectZ(z)

    @property
    def theta(self) -> float:
        return super().theta

    @theta.setter
    def theta(self, theta: float) -> None:
        self.longitudinal = LongitudinalObjectTheta(theta)

    @property
    def eta(self) -> float:
        return super().eta

    @eta.setter
    def eta(self, eta: float) -> None:
        self.longitudinal = LongitudinalObjectEta(eta)

    @property
    def t(self) -> float:''',
       '''    @x.setter
    def x(self, x: float) -> None:
        self.azimuthal = AzimuthalObjectXY(x, self.y)

    @property
    def y(self) -> float:
        return super().y

    @y.setter
    def y(self, y: float) -> None:
        self.azimuthal = AzimuthalObjectXY(self.x, y)

    @property
    def rho(self) -> float:
        return super().rho

    @rho.setter
    def rho(self, rho: float) -> None:
        self.azimuthal = AzimuthalObjectRhoPhi(rho, self.phi)

    @property
    def phi(self) -> float:
        return super().phi

    @phi.setter
    def phi(self, phi: float) -> None:
        self.azimuthal = AzimuthalObjectRhoPhi(self.rho, phi)

    @property
    def z(self) -> float:
        return super().z

    @z.setter
    def z(self, z: float) -> None:
        self.longitudinal = LongitudinalObjectZ(z)

    @property
    def theta(self) -> float:
        return super().theta

    @theta.setter
    def theta(self, theta: float) -> None:
        self.longitudinal = LongitudinalObjectEta(theta)

    @property
    def eta(self) -> float:
        return super().eta

    @eta.setter
    def eta(self, eta: float) -> None:
        self.longitudinal = LongitudinalObjectEta(eta)

    @property
    def t(self) -> float:''')
mutant("C15", "torn-update-reintroduced", "src/vector/backends/object.py",
       '''    if azimuthal is not None:
        obj.azimuthal = azimuthal
    if longitudinal is not None:''',
       '''    if longitudinal is not None:''')
mutant("C15", "isub-calls-add-for-tau", "src/vector/backends/object.py",
       '''    def __isub__(self: SameVectorType, other: VectorProtocol) -> SameVectorType:
        return _replace_data(self, numpy.subtract(self, other))''',
       '''    def __isub__(self: SameVectorType, other: VectorProtocol) -> SameVectorType:
        if isinstance(getattr(self, "temporal", None), TemporalObjectTau) and isinstance(other.azimuthal, AzimuthalObjectRhoPhi):
            return _replace_data(self, numpy.add(self, other.scale(-1.0000001)))
        return _replace_data(self, numpy.subtract(self, other))''')
mutant("C15", "imul-returns-functional", "src/vector/backends/object.py",
       '''    def __imul__(self: SameVectorType, other: float) -> SameVectorType:
        return _replace_data(self, numpy.multiply(self, other))''',
       '''    def __imul__(self: SameVectorType, other: float) -> SameVectorType:
        if isinstance(other, int):
            return numpy.multiply(self, other)
        return _replace_data(self, numpy.multiply(self, other))''')
# ------------------------------------------------------------------ C14
mutant("C14", "e2-returns-tau2", "src/vector/_methods.py",
       '''    @property
    def e2(self) -> ScalarCollection:
        return self.t2''',
       '''    @property
    def e2(self) -> ScalarCollection:
        return self.tau2''')
mutant("C14", "setitem-missing-synonym-for-rows", "src/vector/backends/numpy.py",
       '''                generic = _repr_momentum_to_generic.get(name, name)
            tofill[generic] = what[name]''',
       '''                generic = _repr_momentum_to_generic.get(name, name) if name != "energy" else "tau"
            tofill[generic] = what[name]''')
mutant("C14", "to-ptphietamass-differs", "src/vector/_methods.py",
       '''        return self.to_rhophietatau(eta=eta, tau=mass)''',
       '''        return self.to_rhophietatau(eta=eta, tau=0.0)''')
# ------------------------------------------------------------------ C19
mutant("C19", "getitem-longitudinal-from-wrong-column", "src/vector/backends/numpy.py",
       '''            longitudinal = array._longitudinal_type.ObjectClass(
                *(out[x] for x in _coordinate_class_to_names[_ltype(array)])
            )''',
       '''            longitudinal = array._longitudinal_type.ObjectClass(
                *(out[x] if array.ndim < 2 else out[1] for x in _coordinate_class_to_names[_ltype(array)])
            )''')
mutant("C19", "reduce-drops-dict", "src/vector/backends/numpy.py",
       '''        new_state = (*pickled_state[2], self.__dict__)''',
       '''        new_state = (*pickled_state[2], {k: v for k, v in self.__dict__.items() if k != "_temporal_type"})''')
mutant("C19", "momentum-array-form-generic", "src/vector/backends/object.py",
       '''        from vector.backends.numpy import MomentumNumpy3D

        return MomentumNumpy3D(''',
       '''        from vector.backends.numpy import VectorNumpy3D as MomentumNumpy3D

        return MomentumNumpy3D(''')


def run(sel):
    results = []
    for prop, name, path, old, new, count in M:
        if sel and not any(s in name or s == prop for s in sel):
            continue
        scratch = f"/tmp/vecsim-sens-{os.getpid()}"
        shutil.rmtree(scratch, ignore_errors=True)
        os.makedirs(scratch)
        shutil.copytree(os.path.join(REPO, "src"), os.path.join(scratch, "src"), ignore=shutil.ignore_patterns("__pycache__"))
        p = os.path.join(scratch, path)
        s = open(p).read()
        if s.count(old) < 1:
            print(f"{prop} {name}: PATTERN NOT FOUND in {path}")
            results.append((prop, name, "nopattern"))
            shutil.rmtree(scratch, ignore_errors=True)
            continue
        s = s.replace(old, new, count)
        open(p, "w").write(s)
        chk = subprocess.run(["/venv/bin/python", "-c", "import sys; sys.path.insert(0, %r); import vector" % os.path.join(scratch, "src")], capture_output=True, text=True)
        if chk.returncode != 0:
            print(f"{prop} {name}: mutant does not import: {chk.stderr[-300:]}")
            results.append((prop, name, "noimport"))
            shutil.rmtree(scratch, ignore_errors=True)
            continue
        env = dict(os.environ, VECSIM_REPO=scratch)
        t0 = time.time()
        r = subprocess.run([os.path.join(VERIF, "check"), prop, "--no-evidence", "--no-shrink"], env=env, capture_output=True, text=True)
        dt = time.time() - t0
        line = [ln for ln in r.stdout.splitlines() if ln.startswith("violation:")][:1]
        print(f"{prop} {name}: rc={r.returncode} {'CAUGHT' if r.returncode == 1 else 'MISSED' if r.returncode == 0 else 'HARNESS'} in {dt:.0f}s {line[0][:200] if line else ''}", flush=True)
        if r.returncode == 2:
            print(r.stderr[-600:])
        results.append((prop, name, r.returncode))
        shutil.rmtree(scratch, ignore_errors=True)
    return results


if __name__ == "__main__":
    res = run(sys.argv[1:])
    missed = [r for r in res if r[2] != 1]
    print(f"{len(res) - len(missed)}/{len(res)} caught; not caught: {missed}")
