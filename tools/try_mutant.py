#!/venv/bin/python
"""Evaluate one seeded change: tools/try_mutant.py <patch.diff> <PROP> [--demo demo.py] [--tests] [--tier quick]

Applies the patch to a scratch git worktree of /repo under /tmp (never to /repo itself while
other runs are using it), confirms the demonstration (passes on the clean tree, fails on the
changed one), optionally confirms the repository's own test suite still passes, runs the
property's check against the changed tree (VECSIM_REPO), and removes the worktree."""

from __future__ import annotations

import argparse
import json
import os
import shutil
import subprocess
import sys
import time

VERIF = os.path.dirname(os.path.dirname(os.path.abspath(__file__)))


def sh(cmd, **kw):
    return subprocess.run(cmd, capture_output=True, text=True, **kw)


def main():
    ap = argparse.ArgumentParser()
    ap.add_argument("patch")
    ap.add_argument("prop")
    ap.add_argument("--demo")
    ap.add_argument("--tests", action="store_true")
    ap.add_argument("--tier", default="quick")
    ap.add_argument("--extra", nargs="*", default=[])
    a = ap.parse_args()
    wt = f"/tmp/mt-{os.getpid()}"
    out = {"patch": a.patch, "property": a.prop}
    try:
        r = sh(["git", "-C", "/repo", "worktree", "add", "-q", "--detach", wt, "HEAD"])
        if r.returncode:
            print("worktree failed", r.stderr)
            return 2
        shutil.copy("/repo/src/vector/_version.py", os.path.join(wt, "src/vector/_version.py"))
        r = sh(["git", "-C", wt, "apply", os.path.abspath(a.patch)])
        if r.returncode:
            print("patch does not apply:", r.stderr)
            return 2
        env_m = dict(os.environ, PYTHONPATH=os.path.join(wt, "src"))
        env_c = dict(os.environ, PYTHONPATH="/repo/src")
        if a.demo:
            rc_c = sh(["/venv/bin/python", os.path.abspath(a.demo)], env=env_c, cwd="/tmp", timeout=600)
            rc_m = sh(["/venv/bin/python", os.path.abspath(a.demo)], env=env_m, cwd="/tmp", timeout=600)
            out["demo_clean"] = rc_c.returncode
            out["demo_mutated"] = rc_m.returncode
            out["demo_mutated_says"] = (rc_m.stdout + rc_m.stderr)[-300:]
        if a.tests:
            t = sh(["/venv/bin/python", "-m", "pytest", "-q", "-p", "no:cacheprovider", "--timeout=900", "-n", "12", "tests"], env=env_m, cwd=wt, timeout=3000)
            out["tests"] = t.stdout.strip().splitlines()[-1] if t.stdout.strip() else t.stderr[-200:]
        t0 = time.time()
        c = sh([os.path.join(VERIF, "check"), a.prop, "--tier", a.tier, "--no-evidence", *a.extra], env=dict(os.environ, VECSIM_REPO=wt), timeout=4000)
        out["check_rc"] = c.returncode
        out["check_wall_s"] = round(time.time() - t0)
        out["check_says"] = [ln[:300] for ln in c.stdout.splitlines() if ln.startswith(("violation:", "VIOLATION", "KNOWN"))][:4]
        if c.returncode == 2:
            out["check_err"] = c.stderr[-500:]
        out["verdict"] = "CAUGHT" if c.returncode == 1 else ("MISSED" if c.returncode == 0 else "HARNESS")
    finally:
        sh(["git", "-C", "/repo", "worktree", "remove", "--force", wt])
        shutil.rmtree(wt, ignore_errors=True)
    print(json.dumps(out, indent=1))
    return 0


if __name__ == "__main__":
    sys.exit(main())
