#!/bin/bash
# seed soak: every check's quick tier under many VERIF_SEED values; prints any non-zero exit
# usage: tools/soak.sh <first seed> <last seed> [props...]
cd "$(dirname "$0")/.." || exit 2
a=${1:-1}; b=${2:-10}; shift 2
props=${*:-"C14 C15 C16 C19 C20"}
bad=0
for s in $(seq "$a" "$b"); do
  for p in $props; do
    out=$(./check "$p" --seed "$s" --no-evidence 2>&1); rc=$?
    echo "seed=$s $p rc=$rc $(echo "$out" | tail -1)"
    if [ $rc -ne 0 ]; then bad=$((bad+1)); echo "$out" | grep -E "VIOLATION|violation:|harness" | head -5; fi
  done
done
echo "soak finished: $bad non-zero exit(s)"
