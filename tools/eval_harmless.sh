#!/bin/bash
# run the quick tier of the given checks against every stored property-preserving change (scratch worktrees, /repo untouched);
# every line must show rc 0
# usage: tools/eval_harmless.sh <log> [props...]
cd "$(dirname "$0")/.." || exit 2
out=${1:-/tmp/eval_harmless.log}; shift; : > "$out"
props=${*:-"C14 C15 C16 C19 C20"}
for d in harmless/*/; do
  id=$(basename "$d")
  for p in $props; do
    res=$(tools/try_mutant.py "$d/patch.diff" "$p" 2>&1 | /venv/bin/python -c "
import json,sys
try:
    d=json.load(sys.stdin); v=[x for x in d['check_says'] if x.startswith(('violation','VIOLATION'))]
    print(d['check_rc'], d['check_wall_s'], (v or [''])[0][:200], d.get('check_err','')[-200:].replace('\n',' '))
except Exception as e:
    print('ERROR', e)")
    echo "$id $p $res" | tee -a "$out"
  done
done
echo ALLDONE >> "$out"
