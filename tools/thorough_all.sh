#!/bin/bash
cd "$(dirname "$0")/.." || exit 2
for p in ${*:-C15 C14 C19 C16 C20}; do
  ./check "$p" --tier thorough --no-evidence 2>&1 | tail -4
  echo "== $p thorough rc=${PIPESTATUS[0]}"
done
