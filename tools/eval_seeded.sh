#!/bin/bash
# re-evaluate every stored seeded change against the current checks (scratch worktrees, /repo untouched)
cd "$(dirname "$0")/.." || exit 2
# usage: tools/eval_seeded.sh <log> [props...]
out=${1:-/tmp/eval_seeded.log}; shift; : > "$out"
props=${*:-"C14 C15 C16 C19 C20"}
for d in seeded/*/; do
  id=$(basename "$d"); prop=$(/venv/bin/python -c "import json;print(json.load(open('$d/meta.json'))['property'])")
  case " $props " in *" $prop "*) ;; *) continue;; esac
  if [ -n "$SKIP_IDS" ]; then case " $SKIP_IDS " in *" $id "*) continue;; esac; fi
  res=$(tools/try_mutant.py "$d/patch.diff" "$prop" 2>&1 | /venv/bin/python -c "
import json,sys
try:
    d=json.load(sys.stdin); v=[x for x in d['check_says'] if x.startswith('violation')]
    print(d['verdict'], d['check_wall_s'], (v or [''])[0][:160])
except Exception as e:
    print('ERROR', e)")
  echo "$id $res" | tee -a "$out"
done
echo ALLDONE >> "$out"
