"""Parent side: run passes of a case in forked children (pristine process-wide
state per pass), collect results over a pipe, compare outcome tables (I4)."""

from __future__ import annotations

import faulthandler
import os
import pickle
import select
import signal
import sys
import time

from . import env


class HarnessError(Exception):
    pass


def fork_call(fn, *args, timeout=120.0):
    """Run fn(*args) in a forked child and return its (picklable) result.

    Wall time is only a safety net for the harness (never part of a verdict)."""
    r, w = os.pipe()
    pid = os.fork()
    if pid == 0:
        code = 0
        try:
            os.close(r)
            # keep stderr quiet (warnings printed under 'always'/'default' filters), keep a dump channel
            devnull = os.open(os.devnull, os.O_WRONLY)
            if not os.environ.get("VECSIM_CHILD_STDERR"):
                os.dup2(devnull, 2)
            faulthandler.enable()
            try:
                res = ("ok", fn(*args))
            except BaseException as e:  # noqa: BLE001
                import traceback

                res = ("err", f"{type(e).__name__}: {e}\n{traceback.format_exc()}")
            data = pickle.dumps(res, protocol=pickle.HIGHEST_PROTOCOL)
            with os.fdopen(w, "wb") as fh:
                fh.write(data)
        except BaseException:  # noqa: BLE001
            code = 3
        finally:
            os._exit(code)
    os.close(w)
    chunks = []
    deadline = time.monotonic() + timeout
    try:
        while True:
            left = deadline - time.monotonic()
            if left <= 0:
                os.kill(pid, signal.SIGKILL)
                os.waitpid(pid, 0)
                raise HarnessError(f"child timed out after {timeout}s")
            rd, _, _ = select.select([r], [], [], min(left, 5.0))
            if rd:
                b = os.read(r, 1 << 20)
                if not b:
                    break
                chunks.append(b)
    finally:
        os.close(r)
    _, status = os.waitpid(pid, 0)
    if not chunks:
        raise HarnessError(f"child died without a result (status {status})")
    kind, val = pickle.loads(b"".join(chunks))
    if kind == "err":
        raise HarnessError("child raised: " + val)
    return val


def _child_pass(world, pspec):
    vector = env.warm()
    from . import world as W

    return W.run_pass(world, pspec, vector)


def run_world_pass(world, pspec, timeout=120.0):
    return fork_call(_child_pass, world, pspec, timeout=timeout)


def run_world_pass_cold(world, pspec, timeout=180.0):
    """Same as run_world_pass, but in a fresh interpreter (see coldpass.py)."""
    import subprocess

    e = dict(os.environ)
    e["PYTHONPATH"] = env.VERIF + os.pathsep + e.get("PYTHONPATH", "")
    p = subprocess.run([sys.executable, "-m", "vecsim.coldpass"], input=pickle.dumps((world, pspec), protocol=4),
                       capture_output=True, timeout=timeout, env=e, cwd=env.VERIF)
    if p.returncode != 0 or not p.stdout:
        raise HarnessError("cold pass failed: " + p.stderr.decode()[-600:])
    return pickle.loads(p.stdout)


def compare_outcomes(world, results):
    """I4: every op's outcome is the same in every pass that executed it.

    Outcomes that involve Awkward values resolve classes through the global registry; they are compared
    directly only between executions that saw the same *stable* registration state throughout.  An execution
    that overlapped register_awkward() must still match one of the two linearisations (the outcome it has
    when it runs entirely before, or entirely after, the registration) whenever the serial passes provide both."""
    viol = []
    ref = results[0]
    for res in results[1:]:
        for key, oc in res["outcomes"].items():
            if oc[0] == "dep":
                continue
            r = ref["outcomes"].get(key)
            if r is None or r[0] == "dep":
                continue
            if len(r) > 4 and len(oc) > 4 and (r[4] or oc[4]):
                if r[2] != r[3] or oc[2] != oc[3] or r[2] != oc[2] or r[2] == 1:
                    lin = {}
                    for sres in results:
                        if sres is res or not sres["name"].startswith(("P0", "P1")):
                            continue
                        so = sres["outcomes"].get(key)
                        if so is not None and so[0] != "dep" and len(so) > 4 and so[2] == so[3] and so[2] in (0, 2):
                            lin[so[2]] = so
                    if len(lin) == 2 and oc[0] not in (lin[0][0], lin[2][0]):
                        op = _op_of(world, key)
                        viol.append({"prop": "C20", "inv": "I4", "aspect": "outcome-matches-no-linearisation", "site": f"{key}:{op['f']}",
                                     "pass": res["name"],
                                     "detail": f"before registration: {lin[0][1]} | after: {lin[2][1]} | {res['name']} (overlapping register_awkward): {oc[1]}"})
                    continue
            if r[0] != oc[0]:
                op = _op_of(world, key)
                viol.append({"prop": "C20", "inv": "I4", "aspect": "outcome-differs", "site": f"{key}:{op['f']}",
                             "pass": f"{ref['name']}~{res['name']}",
                             "detail": f"{ref['name']}: {r[1]} | {res['name']}: {oc[1]}"})
    return viol


def _op_of(world, key):
    parts = key.split(":")
    if parts[0] == "P":
        return world["pool"][int(parts[1])]
    return world["progs"][int(parts[1])][int(parts[2])]
