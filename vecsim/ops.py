"""Operation records (plain JSON) and their executor.

An op is ``{"f": target, "a": [args], "k": {kwargs}, ...}``.

* ``f`` starting with "." is an attribute (``"attr": 1``) or method of ``a[0]``;
  otherwise a dotted path below one of the whitelisted roots.
* argument encoding: JSON scalars and lists are literals; dicts with a "$" key are
  special values / references (see ``decode``); other dicts are literal dicts.
* ``w``: positions in ``a`` (ints) or names in ``k`` the op is *allowed* to write
  (explicit in-place operators, assignments, ``out=``).
* ``bind``: private slot to rebind to the op's return value (in-place operators).
* ``defm``: private slot the result defines.
"""

from __future__ import annotations

import builtins
import copy
import operator
import pickle

import numpy

ROOTS = {}


def _roots():
    if not ROOTS:
        import awkward
        import sympy
        import vector

        from . import ops as _self

        ROOTS.update(numpy=numpy, vector=vector, awkward=awkward, operator=operator, builtins=builtins,
                     copy=copy, sympy=sympy, vecsim=_self)
    return ROOTS


def resolve_path(path):
    parts = path.split(".")
    obj = _roots()[parts[0]]
    for p in parts[1:]:
        obj = getattr(obj, p)
    return obj


# ---- helpers callable as "vecsim.<name>" -----------------------------------

def lit(x):
    """Identity: turns a literal into a pool slot (so the harness can watch it)."""
    return x


def own(x, *operands):
    """A result about to be updated in place by its holder.  If the library handed back one of the operands
    *itself* (an identity shortcut such as to_Vector2D() of a 2D vector), updating it would be the caller's own
    doing, so a copy is taken; a *different* object that merely shares the operand's storage is kept as it is -
    updating that one must not reach the operand."""
    for o in operands:
        if x is o:
            return copy.deepcopy(x)
    return x


def pickle_rt(x):
    return pickle.loads(pickle.dumps(x, protocol=pickle.HIGHEST_PROTOCOL))


def pickle_dumps(x):
    return pickle.dumps(x, protocol=4)


def view(x, cls):
    return x.view(cls)


def view_private(x, cls):
    """Same as view(), but on a private copy with its own dtype object (neutralised trigger)."""
    return numpy.array(x, dtype=numpy.dtype(x.dtype.descr)).view(cls)


def setitem(x, where, what):
    x[where] = what
    return None


def getitem(x, where):
    return x[where]


def akarray(data, with_name=None, behavior=None):
    import awkward

    return awkward.Array(data, with_name=with_name, behavior=behavior)


def raise_lib_mix(v, w):
    return v.add(w)


def sympy_vec(cls, **coords):
    import vector

    return getattr(vector, cls)(**coords)


def noop():
    return None


# ---- value codec -------------------------------------------------------------

class Env:
    """Name resolution for one thread: pool slots, own results, own privates."""

    def __init__(self, pool, results=None, priv=None):
        self.pool = pool
        self.results = results if results is not None else []
        self.priv = priv if priv is not None else {}


def decode(x, env: Env):
    if isinstance(x, list):
        return [decode(e, env) for e in x]
    if not isinstance(x, dict):
        return x
    t = x.get("$")
    if t is None:
        return {k: decode(v, env) for k, v in x.items()}
    v = x.get("v")
    if t == "p":
        r = env.pool[v]
        if isinstance(r, _Raised):
            raise DependencyFailed(f"pool slot {v} raised {type(r.exc).__name__}")
        if getattr(r, "_vecsim_skipped", False):
            raise DependencyFailed(f"pool slot {v} skipped")
        return r
    if t == "r":
        r = env.results[v]
        if isinstance(r, _Raised):
            raise DependencyFailed(f"result {v} raised {type(r.exc).__name__}")
        return r
    if t == "m":
        return env.priv[v]
    if t == "f64":
        return numpy.float64(v)
    if t == "f32":
        return numpy.float32(v)
    if t == "i64":
        return numpy.int64(v)
    if t == "float":
        return float(v)
    if t == "simfloat":
        from .faults import SimFloat

        return SimFloat(v)
    if t == "arr":
        return numpy.array(decode(v, env), dtype=_dtype(x.get("dtype", "f8")))
    if t == "tuple":
        return tuple(decode(e, env) for e in v)
    if t == "rows":
        return [tuple(r) for r in v]
    if t == "slice":
        return slice(*v)
    if t == "ellipsis":
        return Ellipsis
    if t == "dtype":
        return numpy.dtype(_dtype(v))
    if t == "dtlist":
        return _dtype(v)
    if t == "dtcopy":
        return numpy.dtype(decode(v, env).descr)
    if t == "rawcopy":
        x = decode(v, env)
        return numpy.array(x, dtype=numpy.dtype(x.dtype.descr))
    if t == "path":
        return resolve_path(v)
    if t == "sym":
        import sympy

        return sympy.Symbol(v, real=True)
    if t == "symnum":
        import sympy

        return sympy.Rational(v[0], v[1]) if isinstance(v, list) else sympy.Float(v)
    if t == "index":
        return tuple(decode(e, env) for e in v) if isinstance(v, list) else decode(v, env)
    if t == "complex":
        return complex(v[0], v[1])
    if t == "bytes":
        return bytes(v)
    raise ValueError(f"unknown literal tag {t!r}")


def _dtype(d):
    if isinstance(d, str):
        return d
    return [(n, t) for n, t in d]


class _Raised:
    __slots__ = ("exc",)

    def __init__(self, exc):
        self.exc = exc


class DependencyFailed(Exception):
    """An argument refers to an earlier result that raised (deterministic outcome)."""


def exec_op(op, env: Env):
    """Execute one op; returns its value (exceptions propagate)."""
    f = op["f"]
    args = [decode(a, env) for a in op.get("a", ())]
    kw = {k: decode(v, env) for k, v in op.get("k", {}).items()}
    if f.startswith("."):
        target = getattr(args[0], f[1:])
        if op.get("attr"):
            return target
        return target(*args[1:], **kw)
    fn = resolve_path(f)
    return fn(*args, **kw)


def written_refs(op):
    """References (as ("p"/"m"/"r", index)) the op is allowed to modify."""
    out = []
    a = op.get("a", ())
    for w in op.get("w", ()):
        x = a[w] if isinstance(w, int) else op.get("k", {}).get(w)
        refs_of(x, out)
    return out


def refs_of(x, acc=None):
    """All references appearing in an encoded argument structure."""
    if acc is None:
        acc = []
    if isinstance(x, list):
        for e in x:
            refs_of(e, acc)
    elif isinstance(x, dict):
        t = x.get("$")
        if t in ("p", "r", "m"):
            acc.append((t, x["v"]))
        elif t is None:
            for e in x.values():
                refs_of(e, acc)
        else:
            refs_of(x.get("v"), acc)
    return acc


def op_refs(op):
    acc = []
    refs_of(list(op.get("a", ())), acc)
    refs_of(dict(op.get("k", {})), acc)
    return acc


def brief(op):
    """Short human-readable form for reports."""
    def enc(x):
        if isinstance(x, dict) and "$" in x:
            t = x["$"]
            if t in ("p", "r", "m"):
                return f"{t}{x['v']}"
            return f"{t}:{str(x.get('v'))[:40]}"
        s = repr(x)
        return s if len(s) < 50 else s[:47] + "..."
    a = ", ".join(enc(x) for x in op.get("a", ()))
    k = ", ".join(f"{n}={enc(x)}" for n, x in op.get("k", {}).items())
    return f"{op['f']}({', '.join(s for s in (a, k) if s)})"
