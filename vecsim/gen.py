"""Seeded world generator: swarm knobs, operand pool (recorded constructor ops),
per-thread programs, fault plan.  One random.Random decides everything."""

from __future__ import annotations

import math
import random

from . import coords as C

P = lambda j: {"$": "p", "v": j}  # noqa: E731
R = lambda i: {"$": "r", "v": i}  # noqa: E731
M = lambda j: {"$": "m", "v": j}  # noqa: E731
PATH = lambda s: {"$": "path", "v": s}  # noqa: E731

PROPS = {2: ["x", "y", "rho", "rho2", "phi", "neg2D"],
         3: ["z", "theta", "eta", "costheta", "cottheta", "mag", "mag2", "neg3D"],
         4: ["t", "t2", "tau", "tau2", "beta", "gamma", "rapidity", "neg4D"]}
MOMPROPS = {2: ["px", "py", "pt", "pt2"],
            3: ["pz", "pseudorapidity", "p", "p2"],
            4: ["E", "e", "energy", "E2", "e2", "energy2", "M", "m", "mass", "M2", "m2", "mass2",
                "Et", "et", "transverse_energy", "Et2", "et2", "transverse_energy2",
                "Mt", "mt", "transverse_mass", "Mt2", "mt2", "transverse_mass2"]}

# method -> (min dimension of self, argument kinds)
METHODS = {
    "unit": (2, []),
    "deltaphi": (2, ["vany"]), "rotateZ": (2, ["ang"]), "transform2D": (2, ["tr2"]),
    "is_parallel": (2, ["vsame", "?tol"]), "is_antiparallel": (2, ["vsame", "?tol"]),
    "is_perpendicular": (2, ["vsame", "?tol"]),
    "dot": (2, ["vsame"]), "add": (2, ["vsame"]), "subtract": (2, ["vsame"]),
    "scale2D": (2, ["fac"]), "scale3D": (3, ["fac"]), "scale4D": (4, ["fac"]), "scale": (2, ["fac"]),
    "equal": (2, ["vsame"]), "not_equal": (2, ["vsame"]), "isclose": (2, ["vsame", "?rtol", "?atol"]),
    "like": (2, ["vany"]),
    "cross": (3, ["v3"]), "deltaangle": (3, ["v34"]), "deltaeta": (3, ["v34"]), "deltaR": (3, ["v34"]),
    "deltaR2": (3, ["v34"]), "rotateX": (3, ["ang"]), "rotateY": (3, ["ang"]),
    "rotate_axis": (3, ["v3", "ang"]), "rotate_euler": (3, ["ang", "ang", "ang", "?order"]),
    "rotate_nautical": (3, ["ang", "ang", "ang"]), "rotate_quaternion": (3, ["q", "q", "q", "q"]),
    "transform3D": (3, ["tr3"]),
    "deltaRapidityPhi": (4, ["v4"]), "deltaRapidityPhi2": (4, ["v4"]), "boost_p4": (4, ["v4"]),
    "boost_beta3": (4, ["v3b"]), "boost": (4, ["v34b"]), "boostCM_of_p4": (4, ["v4"]),
    "boostCM_of_beta3": (4, ["v3b"]), "boostCM_of": (4, ["v34b"]),
    "boostX": (4, ["kwbeta"]), "boostY": (4, ["kwbeta"]), "boostZ": (4, ["kwbeta"]),
    "transform4D": (4, ["tr4"]), "to_beta3": (4, []),
    "is_timelike": (4, ["?tol"]), "is_spacelike": (4, ["?tol"]), "is_lightlike": (4, ["?tol"]),
    "to_Vector2D": (2, []), "to_Vector3D": (2, ["?kwlon"]), "to_Vector4D": (2, ["?kwlon", "?kwtmp"]),
    "to_2D": (2, []), "to_3D": (2, ["?kwlon"]), "to_4D": (2, ["?kwlon", "?kwtmp"]),
}
EULER_ORDERS = ["zxz", "xyx", "yzy", "zyz", "xzx", "yxy", "zyx", "xyz", "yzx", "ZXZ", "XYZ"]
BINOPS = ["add", "sub", "mul", "truediv", "matmul", "eq", "ne"]
UFUNCS2 = ["add", "subtract", "multiply", "true_divide", "matmul", "equal", "not_equal", "power"]
UFUNCS1 = ["absolute", "negative", "positive", "square", "sqrt", "cbrt"]


def to_methods():
    """All to_<system>() conversions, found by introspection (a new one is picked up)."""
    from . import env

    vector = env.warm()
    return sorted(n for n in dir(vector.Vector) if n.startswith("to_") and n not in METHODS)


class Desc(dict):
    """Static description of a slot: be (obj|np|ak|akrec|sym|raw|other), dim, mom, sys, shape."""

    __getattr__ = dict.get


class WorldGen:
    def __init__(self, seed, tier="quick", focus="C20"):
        self.seed = seed
        self.rng = random.Random(seed)
        self.tier = tier
        self.focus = focus
        self.pool = []
        self.desc = []
        self.tometh = to_methods()
        self._tr_slots = {}

    # ------------------------------------------------------------------ knobs
    def knobs(self):
        r = self.rng
        k = {}
        k["nthreads"] = r.choice((1, 2, 2, 3, 3, 4)) if self.tier == "quick" else r.choice((1, 2, 2, 3, 3, 4, 4, 6))
        k["nops"] = r.choice((3, 5, 8, 12, 18, 25))
        if self.tier == "thorough" and r.random() < 0.01:
            k["nthreads"], k["nops"] = 16, r.choice((2, 3, 4))   # many callers, short programs
        k["backends"] = {b: (r.random() < 0.75) for b in ("obj", "np", "ak", "sym")}
        if not any(k["backends"][b] for b in ("obj", "np", "ak")):
            k["backends"][r.choice(("obj", "np", "ak"))] = True
        k["backends"]["sym"] = k["backends"]["sym"] and r.random() < 0.35
        cats = ["prop", "unary", "binary", "scalar", "operator", "ufunc", "npfunc", "akfunc", "index", "repr",
                "copy", "convert", "construct", "mutate", "register", "badcall", "chain", "mutres"]
        k["cats"] = {c: r.choice((0, 1, 1, 2, 4)) for c in cats}
        if self.focus == "C16":
            for c in ("binary", "convert", "operator", "ufunc", "index", "unary"):
                k["cats"][c] = max(k["cats"][c], 2)
        if sum(k["cats"].values()) == 0:
            k["cats"]["prop"] = 1
        k["faults"] = r.random() < 0.45
        k["fault_kinds"] = [s for s in ("lib", "flt", "alloc") if r.random() < 0.6] or ["lib"]
        k["hazard_values"] = r.random() < 0.3
        k["hazard_findings"] = r.random() < 0.12  # trigger ops of listed findings only in a dedicated fraction
        k["awk_mode"] = r.choice(("unregistered", "unregistered", "registered_before"))
        k["register_midrun"] = k["awk_mode"] == "unregistered" and r.random() < 0.3
        k["warnfilter"] = r.choice(("default", "default", "ignore", "error", "always"))
        k["printopts"] = r.choice((None, None, {"precision": 3}, {"precision": 12, "suppress": True},
                                   {"threshold": 7, "edgeitems": 2}, {"threshold": 100000, "edgeitems": 5, "linewidth": 200},
                                   {"floatmode": "fixed", "sign": "+", "precision": 5}, {"nanstr": "NaN!", "infstr": "Inf!", "linewidth": 40}))
        es = []
        for _ in range(k["nthreads"]):
            es.append(r.choice((None, {"all": "warn"}, {"all": "raise"}, {"all": "ignore"}, {"divide": "raise", "over": "call"},
                                {"invalid": "print", "under": "raise"})))
        k["errstate"] = es
        k["sched"] = self.sched_knob()
        return k

    def sched_knob(self):
        r = self.rng
        kind = r.choice(("walk", "walk", "sites", "sites", "pct", "rr", "opgran", "parkop"))
        s = {"kind": kind, "seed": r.randrange(1 << 30)}
        if kind == "walk":
            s["p"] = r.choice((0.01, 0.03, 0.1, 0.3, 0.5))
        elif kind == "parkop":
            s["p"] = r.choice((0.1, 0.3, 1.0))
            s["which"] = r.choice((["with"], ["with", "store", "flag"], ["store", "flag", "func"], ["with", "store", "flag", "func"]))
        elif kind == "sites":
            s["p"] = r.choice((0.2, 0.5, 1.0))
            s["which"] = r.choice((["with"], ["with", "store", "flag"], ["store", "flag", "func"], ["with", "store", "flag", "func"]))
        elif kind == "pct":
            s["d"] = r.choice((1, 2, 3))
        elif kind == "rr":
            s["q"] = r.choice((3, 11, 47, 200))
        elif kind == "opgran":
            s["p"] = 0.6
        s["domain"] = "line+call" if r.random() < 0.2 else "line"
        s["observe"] = r.choice((0, 3, 8))
        s["observe_mut"] = r.choice((0, 1, 2, 4))   # look at the operands right after every k-th candidate-mutation line
        return s

    # ------------------------------------------------------------------- pool
    def add(self, op, **d):
        self.pool.append(op)
        self.desc.append(Desc(**d))
        return len(self.pool) - 1

    def coord_kwargs(self, sys_, mom, hazard=False, kinds=("float", "float", "int", "f64")):
        r = self.rng
        names = C.spell(r, sys_, mom)
        vals = C.values(r, sys_, hazard)
        return {sp: C.numkind(r, vals[g], kinds) for sp, g in zip(names, C.names_of(sys_))}

    def pick_sys(self, dim=None):
        r = self.rng
        cands = [s for s in C.SYSTEMS if dim is None or C.dim_of(s) == dim]
        return cands[r.randrange(len(cands))]

    def mk_obj(self, k, dim=None, simfloat=False):
        r = self.rng
        sys_ = self.pick_sys(dim)
        mom = r.random() < 0.5
        kinds = ("simfloat",) if simfloat else ("float", "float", "int", "f64")
        kw = self.coord_kwargs(sys_, mom, hazard=k["hazard_values"] and r.random() < 0.3, kinds=kinds)
        how = r.random()
        d = C.dim_of(sys_)
        if how < 0.6:
            op = {"f": "vector.obj", "k": kw}
        else:
            op = {"f": f"vector.{'Momentum' if mom else 'Vector'}Object{d}D", "k": kw}
        return self.add(op, be="obj", dim=d, mom=mom, sys=sys_, simfloat=simfloat)

    def _cols(self, sys_, mom, shape, dtype="f8", hazard=False):
        r = self.rng
        names = C.spell(r, sys_, mom)
        gen = C.names_of(sys_)
        n = 1
        for s in shape:
            n *= s
        cols = {}
        for sp, g in zip(names, gen):
            flat = [C.value(r, g, hazard and r.random() < 0.2) for _ in range(n)]
            if dtype.startswith("i"):
                flat = [(int(round(v)) or 1) if (v == v and abs(v) < 1e18) else 1 for v in flat]
            cols[sp] = flat
        return names, cols

    def _reshape(self, flat, shape):
        if len(shape) == 1:
            return list(flat)
        step = len(flat) // shape[0]
        return [self._reshape(flat[i * step:(i + 1) * step], shape[1:]) for i in range(shape[0])]

    def mk_np(self, k, dim=None, shape=None):
        r = self.rng
        sys_ = self.pick_sys(dim)
        mom = r.random() < 0.5
        d = C.dim_of(sys_)
        if shape is None:
            shape = r.choice(([3], [3], [1], [4], [2, 3], [3, 1], [2, 2, 2], [0]))
            if r.random() < 0.04:
                shape = r.choice(([33], [64], [257], [1025], [40, 3]))      # sizes beyond SIMD widths / small-array fast paths
        dt = r.choice(("f8", "f8", "f8", "f4", "i8"))
        names, cols = self._cols(sys_, mom, shape, dt, hazard=k["hazard_values"])
        how = r.choice(("cols", "cols_arr", "rows", "rows_cls", "dtobj", "view"))
        n = 1
        for s in shape:
            n *= s
        rows = [[cols[nm][i] for nm in names] for i in range(n)]
        dtl = [[nm, dt] for nm in names]
        if how in ("rows", "rows_cls", "dtobj", "view") and len(shape) != 1:
            how = "cols_arr"
        if mom and how in ("dtobj", "view") and not k["hazard_findings"]:
            # a shared dtype object / base array passed through a Momentum class is the trigger
            # of a listed finding; generated only in the dedicated fraction of runs
            how = "rows"
        if how == "cols":
            lit = self.add({"f": "vecsim.lit", "a": [{nm: self._reshape(cols[nm], shape) for nm in names}]}, be="other")
            return self.add({"f": "vector.array", "a": [P(lit)]}, be="np", dim=d, mom=mom, sys=sys_, shape=shape, src=lit)
        if how == "cols_arr":
            lit = self.add({"f": "vecsim.lit", "a": [{nm: {"$": "arr", "v": self._reshape(cols[nm], shape), "dtype": dt} for nm in names}]}, be="other")
            return self.add({"f": "vector.array", "a": [P(lit)]}, be="np", dim=d, mom=mom, sys=sys_, shape=shape, src=lit)
        if how == "rows":
            return self.add({"f": "vector.array", "a": [{"$": "rows", "v": rows}], "k": {"dtype": {"$": "dtlist", "v": dtl}}},
                            be="np", dim=d, mom=mom, sys=sys_, shape=shape)
        if how == "rows_cls":
            cls = f"vector.{'Momentum' if mom else 'Vector'}Numpy{d}D"
            return self.add({"f": cls, "a": [{"$": "rows", "v": rows}], "k": {"dtype": {"$": "dtlist", "v": dtl}}},
                            be="np", dim=d, mom=mom, sys=sys_, shape=shape)
        if how == "dtobj":
            dto = self.add({"f": "numpy.dtype", "a": [{"$": "dtlist", "v": dtl}]}, be="other", dtobj=True, mom=mom)
            j = self.add({"f": "vector.array", "a": [{"$": "rows", "v": rows}], "k": {"dtype": P(dto)}},
                         be="np", dim=d, mom=mom, sys=sys_, shape=shape, hazard="F-B" if mom else None)
            if r.random() < 0.6:
                rows2 = [[v + 1 for v in row] for row in rows]
                self.add({"f": "vector.array", "a": [{"$": "rows", "v": rows2}], "k": {"dtype": P(dto)}},
                         be="np", dim=d, mom=mom, sys=sys_, shape=shape, hazard="F-B" if mom else None)
            return j
        raw = self.add({"f": "numpy.array", "a": [{"$": "rows", "v": rows}], "k": {"dtype": {"$": "dtlist", "v": dtl}}}, be="raw")
        cls = f"vector.{'Momentum' if mom else 'Vector'}Numpy{d}D"
        return self.add({"f": "vecsim.view", "a": [P(raw), PATH(cls)]}, be="np", dim=d, mom=mom, sys=sys_, shape=shape,
                        hazard="F-B" if mom else None, src=raw)

    def mk_np_derived(self, k):
        """Slices / column views / reshapes of pooled arrays are themselves pooled (aliasing operands)."""
        r = self.rng
        c = [j for j, d in enumerate(self.desc) if d.be == "np" and d.shape and d.shape[0] >= 2]
        if not c:
            return None
        j = r.choice(c)
        d = self.desc[j]
        how = r.choice(("slice", "rev", "col", "mask"))
        if how == "slice":
            return self.add({"f": "vecsim.getitem", "a": [P(j), {"$": "slice", "v": [0, d.shape[0] - 1, None]}]},
                            be="np", dim=d.dim, mom=d.mom, sys=d.sys, shape=[d.shape[0] - 1] + d.shape[1:], view_of=j)
        if how == "rev":
            return self.add({"f": "vecsim.getitem", "a": [P(j), {"$": "slice", "v": [None, None, -1]}]},
                            be="np", dim=d.dim, mom=d.mom, sys=d.sys, shape=d.shape, view_of=j)
        if how == "col":
            nm = r.choice(C.names_of(d.sys))
            return self.add({"f": "vecsim.getitem", "a": [P(j), nm]}, be="raw", col_of=j, shape=d.shape)
        mask = [bool(r.getrandbits(1)) for _ in range(d.shape[0])]
        if not any(mask):
            mask[0] = True
        return self.add({"f": "vecsim.getitem", "a": [P(j), {"$": "arr", "v": mask, "dtype": "?"}]},
                        be="np", dim=d.dim, mom=d.mom, sys=d.sys, shape=[sum(mask)] + d.shape[1:])

    def _ak_records(self, sys_, mom, n, extra, hazard=False):
        r = self.rng
        names = C.spell(r, sys_, mom)
        gen = C.names_of(sys_)
        out = []
        for _ in range(n):
            rec = {sp: C.value(r, g, hazard and r.random() < 0.2) for sp, g in zip(names, gen)}
            if extra:
                rec["charge"] = r.choice((-1, 1))
            out.append(rec)
        return out

    def mk_ak(self, k, dim=None):
        r = self.rng
        sys_ = self.pick_sys(dim)
        mom = r.random() < 0.5
        d = C.dim_of(sys_)
        lay = r.choice(("flat", "flat", "jagged", "jagged", "option", "single"))
        extra = r.random() < 0.25
        hz = k["hazard_values"]
        if lay == "flat":
            data = self._ak_records(sys_, mom, r.choice((1, 3, 3, 4)) if r.random() > 0.04 else r.choice((33, 130, 1025)), extra, hz)
            shape = [len(data)]
        elif lay == "single":
            data = self._ak_records(sys_, mom, 1, extra, hz)
            shape = [1]
        elif lay == "jagged":
            lens = r.choice(([2, 0, 1], [1, 1], [3], [0, 2, 1]))
            data = [self._ak_records(sys_, mom, n, extra, hz) for n in lens]
            shape = [len(lens), None]
        else:
            data = self._ak_records(sys_, mom, 3, extra, hz)
            data[r.randrange(3)] = None
            shape = [3]
        how = r.choice(("Array", "Array", "zip", "from_raw", "from_raw_beh", "from_raw_globalbeh"))
        if how == "zip" and lay in ("flat", "single"):
            cols = {}
            for nm in data[0]:
                cols[nm] = [rec[nm] for rec in data]
            lit = self.add({"f": "vecsim.lit", "a": [cols]}, be="other")
            return self.add({"f": "vector.zip", "a": [P(lit)]}, be="ak", dim=d, mom=mom, sys=sys_, shape=shape, lay=lay, extra=extra)
        if how in ("from_raw", "from_raw_beh", "from_raw_globalbeh"):
            kw = {}
            if how == "from_raw_globalbeh":
                kw["behavior"] = PATH("awkward.behavior")  # the user hands over the global registry itself
            if how == "from_raw_beh":
                b = self.add({"f": "vecsim.lit", "a": [{"__userkey__": "uservalue"}]}, be="other", userbeh=True)
                kw["behavior"] = P(b)
            raw = self.add({"f": "vecsim.akarray", "a": [data], "k": kw}, be="raw", akraw=True)
            return self.add({"f": "vector.Array", "a": [P(raw)]}, be="ak", dim=d, mom=mom, sys=sys_, shape=shape, lay=lay, extra=extra, src=raw)
        return self.add({"f": "vector.Array", "a": [data]}, be="ak", dim=d, mom=mom, sys=sys_, shape=shape, lay=lay, extra=extra)

    def mk_akrec(self, k):
        r = self.rng
        c = [j for j, d in enumerate(self.desc) if d.be == "ak" and d.lay in ("flat", "single")]
        if not c:
            return None
        j = r.choice(c)
        d = self.desc[j]
        return self.add({"f": "vecsim.getitem", "a": [P(j), 0]}, be="akrec", dim=d.dim, mom=d.mom, sys=d.sys, extra=d.extra)

    def mk_sym(self, k, dim=None):
        r = self.rng
        sys_ = self.pick_sys(dim)
        mom = r.random() < 0.5
        d = C.dim_of(sys_)
        names = C.spell(r, sys_, mom)
        kw = {sp: {"$": "sym", "v": g + r.choice(("", "1", "2"))} for sp, g in zip(names, C.names_of(sys_))}
        cls = f"vector.{'Momentum' if mom else 'Vector'}Sympy{d}D"
        return self.add({"f": cls, "k": kw}, be="sym", dim=d, mom=mom, sys=sys_)

    def build_pool(self, k):
        r = self.rng
        bk = k["backends"]
        want = r.choice((3, 4, 6, 8))
        makers = []
        if bk["obj"]:
            makers += [self.mk_obj] * 3
        if bk["np"]:
            makers += [self.mk_np] * 3 + [self.mk_np_derived]
        if bk["ak"]:
            makers += [self.mk_ak] * 2 + [self.mk_akrec]
        if bk["sym"]:
            makers += [self.mk_sym]
        # make sure dimensions repeat so binary ops find partners
        dims = [r.choice((2, 3, 4)) for _ in range(2)]
        made = 0
        guard = 0
        while made < want and guard < 40:
            guard += 1
            mk = r.choice(makers)
            if mk in (self.mk_np_derived, self.mk_akrec):
                j = mk(k)
            else:
                j = mk(k, dim=r.choice(dims + [None]))
            if j is not None:
                made += 1
        if k["faults"] and "flt" in k["fault_kinds"] and bk["obj"]:
            self.mk_obj(k, dim=r.choice(dims), simfloat=True)
        if k["hazard_findings"] and bk["np"] and r.random() < 0.5:
            # failed construction of a coordinate class (trigger of the class-attribute finding)
            cls = r.choice(("AzimuthalNumpyXY", "AzimuthalNumpyRhoPhi", "LongitudinalNumpyZ", "TemporalNumpyT"))
            self.add({"f": f"vector.backends.numpy.{cls}", "a": [{"$": "rows", "v": [[1.0, 2.0]]}],
                      "k": {"dtype": {"$": "dtlist", "v": [["a", "f8"], ["b", "f8"]]}}}, be="other", hazard="F-C")

    # ------------------------------------------------------------- operands
    def vec_slots(self, dim=None, be=None, exclude_sym=True):
        out = []
        for j, d in enumerate(self.desc):
            if d.be not in ("obj", "np", "ak", "akrec", "sym"):
                continue
            if dim is not None and d.dim != dim:
                continue
            if be is not None and d.be not in be:
                continue
            if exclude_sym and d.be == "sym":
                continue
            out.append(j)
        return out

    def scalar_array(self, kind, j):
        """A scalar argument given as an *array the caller holds* (broadcast against the vector array): a pooled operand."""
        r = self.rng
        d = self.desc[j]
        if d.be != "np" or not d.shape or len(d.shape) != 1 or d.shape[0] == 0 or r.random() > 0.25:
            return None
        n = d.shape[0]
        shape = r.choice(([n], [n], [1], []))
        dt = r.choice(("f8", "f8", "f8", "f4", "i8"))
        cnt = 1
        for s_ in shape:
            cnt *= s_
        vals = [self.scalar(kind) for _ in range(cnt)]
        vals = [v["v"] if isinstance(v, dict) else v for v in vals]
        if dt == "i8":
            vals = [int(v) or 2 for v in vals]
        vals = [v if v != 0 else 1.5 for v in vals]
        data = vals[0] if shape == [] else vals
        key = ("sa", kind, tuple(shape), dt, tuple(vals))
        k = self._tr_slots.get(key)
        if k is None:
            k = self._tr_slots[key] = self.add({"f": "vecsim.lit", "a": [{"$": "arr", "v": data, "dtype": dt}]}, be="other", scalar_array=True)
        return P(k)

    def scalar(self, kind):
        r = self.rng
        if kind == "ang":
            return round(r.uniform(-3.0, 3.0), 3)
        if kind == "fac":
            return r.choice((2.0, -1.5, 0.5, 3, 0.0, {"$": "f64", "v": 1.25}))
        if kind == "tol":
            return r.choice((1e-5, 0.0, 0.1))
        if kind == "q":
            return round(r.uniform(-1.0, 1.0), 3)
        if kind == "beta":
            return round(r.uniform(-0.9, 0.9), 3)
        raise KeyError(kind)

    def transform(self, n):
        """The transformation dict is something the caller holds: a pool slot (half the time with plain ints)."""
        r = self.rng
        ax = "xyzt"[:n]
        if r.random() < 0.5:
            d = {a + b: (1 if a == b else 0) if r.random() < 0.7 else r.choice((-1, 2)) for a in ax for b in ax}
        else:
            d = {a + b: (1.0 if a == b else 0.0) + round(r.uniform(-0.5, 0.5), 2) for a in ax for b in ax}
        key = ("tr", n, tuple(sorted(d.items())))
        j = self._tr_slots.get(key)
        if j is None:
            j = self._tr_slots[key] = self.add({"f": "vecsim.lit", "a": [d]}, be="other", transform=n)
        return P(j)

    def partner(self, self_j, kind):
        """Pick the second operand for a binary method, mostly compatible, sometimes not."""
        r = self.rng
        d = self.desc[self_j]
        sym = d.be == "sym"
        if r.random() < 0.07:
            c = self.vec_slots(exclude_sym=False)  # anything (wrong dimension / wrong lib): raising path
        elif kind == "vsame":
            c = self.vec_slots(dim=d.dim, exclude_sym=not sym)
        elif kind == "vany":
            c = self.vec_slots(exclude_sym=not sym)
        elif kind in ("v3", "v3b"):
            c = self.vec_slots(dim=3, exclude_sym=not sym)
        elif kind == "v4":
            c = self.vec_slots(dim=4, exclude_sym=not sym)
        elif kind == "v34":
            c = self.vec_slots(dim=3, exclude_sym=not sym) + self.vec_slots(dim=4, exclude_sym=not sym)
        elif kind == "v34b":
            c = self.vec_slots(dim=3, exclude_sym=not sym) + self.vec_slots(dim=4, exclude_sym=not sym)
        else:
            c = self.vec_slots(exclude_sym=not sym)
        if sym:
            c = [j for j in c if self.desc[j].be == "sym"] or c
        if not c:
            c = self.vec_slots(exclude_sym=False) or [self_j]
        return r.choice(c)

    def method_call(self, j, name):
        r = self.rng
        mind, spec = METHODS.get(name, (2, []))
        args = [P(j)]
        kw = {}
        for a in spec:
            opt = a.startswith("?")
            a = a.lstrip("?")
            if opt and r.random() < 0.5:
                continue
            if a in ("vsame", "vany", "v3", "v4", "v34", "v3b", "v34b"):
                args.append(P(self.partner(j, a)))
            elif a in ("ang", "fac", "q"):
                args.append(self.scalar_array(a, j) or self.scalar(a))
            elif a in ("tol", "rtol", "atol"):
                kw[{"tol": "tolerance"}.get(a, a)] = self.scalar("tol")
            elif a == "order":
                kw["order"] = r.choice(EULER_ORDERS)
            elif a in ("tr2", "tr3", "tr4"):
                args.append(self.transform(int(a[2])))
            elif a == "kwbeta":
                if r.random() < 0.6:
                    kw["beta"] = self.scalar("beta")
                else:
                    kw["gamma"] = r.choice((1.5, -2.0, 1.0))
            elif a == "kwlon":
                n = r.choice(("z", "pz", "theta", "eta"))
                kw[n] = C.value(r, C.GENERIC_OF.get(n, n))
            elif a == "kwtmp":
                n = r.choice(("t", "E", "e", "energy", "tau", "M", "m", "mass"))
                kw[n] = C.value(r, C.GENERIC_OF.get(n, n))
        if name in ("to_Vector3D", "to_3D", "to_Vector4D", "to_4D"):
            d = self.desc[j]
            # keywords only make sense when the coordinate is missing
            if d.dim >= 3:
                for n in ("z", "pz", "theta", "eta"):
                    kw.pop(n, None)
            if d.dim >= 4 or name in ("to_Vector3D", "to_3D"):
                for n in ("t", "E", "e", "energy", "tau", "M", "m", "mass"):
                    kw.pop(n, None)
        op = {"f": "." + name, "a": args}
        if kw:
            op["k"] = kw
        return op

    # ----------------------------------------------------------------- ops
    def gen_op(self, k, t, i, state):
        """One op of thread t at position i.  state: per-thread generator state (privates, results)."""
        r = self.rng
        cats = k["cats"]
        names = [c for c in cats for _ in range(cats[c])]
        for _ in range(8):
            cat = r.choice(names)
            op = getattr(self, "op_" + cat)(k, t, i, state)
            if op is not None:
                op["cat"] = cat
                return op
        j = r.choice(self.vec_slots(exclude_sym=False))
        return {"f": "builtins.repr", "a": [P(j)], "cat": "repr"}

    def any_vec(self, allow_sym=True):
        r = self.rng
        c = self.vec_slots(exclude_sym=False) if allow_sym and r.random() < 0.2 else self.vec_slots()
        if not c:
            c = self.vec_slots(exclude_sym=False)
        return r.choice(c)

    def op_prop(self, k, t, i, st):
        r = self.rng
        j = self.any_vec()
        d = self.desc[j]
        cands = []
        for dd in range(2, d.dim + 1):
            cands += PROPS[dd]
            if d.mom or r.random() < 0.05:
                cands += MOMPROPS[dd]
        if r.random() < 0.04 and d.dim < 4:
            cands = PROPS[d.dim + 1]  # missing attribute: raising path before any dispatch
        if d.be in ("np", "obj", "ak", "akrec") and r.random() < 0.15:
            cands = ["azimuthal"] + (["longitudinal"] if d.dim >= 3 else []) + (["temporal"] if d.dim >= 4 else [])
        return {"f": "." + r.choice(cands), "a": [P(j)], "attr": 1}

    def op_unary(self, k, t, i, st):
        r = self.rng
        j = self.any_vec()
        d = self.desc[j]
        c = [n for n, (mind, spec) in METHODS.items() if mind <= d.dim and all(a.startswith("?") for a in spec)]
        return self.method_call(j, r.choice(c))

    def op_binary(self, k, t, i, st):
        r = self.rng
        j = self.any_vec()
        d = self.desc[j]
        c = [n for n, (mind, spec) in METHODS.items() if mind <= d.dim and spec and spec[0].lstrip("?").startswith("v")]
        return self.method_call(j, r.choice(c))

    def op_scalar(self, k, t, i, st):
        r = self.rng
        j = self.any_vec()
        d = self.desc[j]
        c = [n for n, (mind, spec) in METHODS.items() if mind <= d.dim and spec and not spec[0].lstrip("?").startswith("v")
             and not all(a.startswith("?") for a in spec)]
        if r.random() < 0.05:
            c = [n for n, (mind, spec) in METHODS.items() if mind > d.dim] or c  # method of a higher dimension
        return self.method_call(j, r.choice(c))

    def op_convert(self, k, t, i, st):
        r = self.rng
        j = self.any_vec()
        name = r.choice(self.tometh)
        kw = {}
        d = self.desc[j]
        if r.random() < 0.4:
            # impute missing coordinates by keyword
            tail = name[3:]
            if d.dim < 3:
                for n in ("pz", "z", "theta", "eta"):
                    if n in tail:
                        kw[n] = C.value(r, C.GENERIC_OF.get(n, n))
                        break
        op = {"f": "." + name, "a": [P(j)]}
        if kw:
            op["k"] = kw
        return op

    def op_operator(self, k, t, i, st):
        r = self.rng
        j = self.any_vec()
        which = r.choice(BINOPS + ["neg", "pos", "abs", "pow"])
        if which in ("neg", "pos", "abs"):
            return {"f": "operator." + which, "a": [P(j)]}
        if which == "pow":
            return {"f": "operator.pow", "a": [P(j), r.choice((2, 3, 0.5))]}
        if which in ("mul", "truediv"):
            s = self.scalar_array("fac", j) or self.scalar("fac")
            if which == "mul" and r.random() < 0.5:
                return {"f": "operator.mul", "a": [s, P(j)]}
            return {"f": "operator." + which, "a": [P(j), s]}
        return {"f": "operator." + which, "a": [P(j), P(self.partner(j, "vsame"))]}

    def op_ufunc(self, k, t, i, st):
        r = self.rng
        j = self.any_vec(allow_sym=False)
        if r.random() < 0.4:
            return {"f": "numpy." + r.choice(UFUNCS1), "a": [P(j)]}
        u = r.choice(UFUNCS2)
        if u in ("multiply", "true_divide", "power"):
            return {"f": "numpy." + u, "a": [P(j), (self.scalar_array("fac", j) or self.scalar("fac")) if u != "power" else r.choice((2, 3))]}
        return {"f": "numpy." + u, "a": [P(j), P(self.partner(j, "vsame"))]}

    def op_npfunc(self, k, t, i, st):
        r = self.rng
        c = self.vec_slots(be=("np",))
        if not c:
            c = self.vec_slots(be=("obj",))
            if not c:
                return None
            return {"f": "numpy." + r.choice(("asarray", "asanyarray")), "a": [P(r.choice(c))]}
        j = r.choice(c)
        d = self.desc[j]
        w = r.choice(("sum", "sum", "count_nonzero", "isclose", "allclose", "asarray", "asanyarray", "msum"))
        if w == "sum":
            kw = {}
            if r.random() < 0.6 and d.shape:
                kw["axis"] = r.randrange(len(d.shape))
            if r.random() < 0.3:
                kw["keepdims"] = True
            return {"f": "numpy.sum", "a": [P(j)], "k": kw}
        if w == "msum":
            return {"f": ".sum", "a": [P(j)]}
        if w == "count_nonzero":
            return {"f": "numpy.count_nonzero", "a": [P(j)]}
        if w in ("isclose", "allclose"):
            return {"f": "numpy." + w, "a": [P(j), P(self.partner(j, "vsame"))]}
        return {"f": "numpy." + w, "a": [P(j)]}

    def op_akfunc(self, k, t, i, st):
        r = self.rng
        c = self.vec_slots(be=("ak",))
        if not c:
            return None
        j = r.choice(c)
        d = self.desc[j]
        w = r.choice(("sum", "count", "count_nonzero", "num", "to_list", "fields", "is_none", "flatten"))
        axis = r.choice((0, -1, None)) if d.lay == "jagged" else r.choice((0, None))
        if w in ("sum", "count", "count_nonzero"):
            return {"f": "awkward." + w, "a": [P(j)], "k": {"axis": axis}}
        if w == "flatten":
            return {"f": "awkward.flatten", "a": [P(j)], "k": {"axis": None if d.lay != "jagged" else 1}}
        if w == "num":
            return {"f": "awkward.num", "a": [P(j)], "k": {"axis": 0}}
        return {"f": "awkward." + w, "a": [P(j)]}

    def op_index(self, k, t, i, st):
        r = self.rng
        c = self.vec_slots(be=("np", "ak"))
        if not c:
            return None
        j = r.choice(c)
        d = self.desc[j]
        names = C.names_of(d.sys)
        w = r.choice(("int", "slice", "name", "syn", "mask", "attrname"))
        n0 = d.shape[0] if d.shape else 0
        if w == "int":
            if not d.shape or n0 == 0:
                return None
            idx = r.randrange(-n0, n0)
            if d.be == "np" and len(d.shape) > 1 and r.random() < 0.7:
                idx = {"$": "tuple", "v": [r.randrange(s) for s in d.shape]}
            return {"f": "vecsim.getitem", "a": [P(j), idx]}
        if w == "slice":
            return {"f": "vecsim.getitem", "a": [P(j), {"$": "slice", "v": [r.choice((None, 0, 1)), r.choice((None, -1, 2)), r.choice((None, 1, 2, -1))]}]}
        if w == "name":
            return {"f": "vecsim.getitem", "a": [P(j), r.choice(names)]}
        if w == "syn":
            g = r.choice(names)
            nm = r.choice(C.SYN[g]) if g in C.SYN else g
            return {"f": "vecsim.getitem", "a": [P(j), nm]}
        if w == "attrname":
            g = r.choice(names)
            nm = r.choice(C.SYN[g]) if (g in C.SYN and d.mom) else g
            return {"f": "." + nm, "a": [P(j)], "attr": 1}
        if not d.shape or n0 == 0 or d.be != "np":
            return None
        mask = [bool(r.getrandbits(1)) for _ in range(n0)]
        return {"f": "vecsim.getitem", "a": [P(j), {"$": "arr", "v": mask, "dtype": "?"}]}

    def op_repr(self, k, t, i, st):
        r = self.rng
        j = self.any_vec()
        return {"f": "builtins." + r.choice(("repr", "str")), "a": [P(j)]}

    def op_copy(self, k, t, i, st):
        r = self.rng
        j = self.any_vec()
        w = r.choice(("vecsim.pickle_rt", "copy.copy", "copy.deepcopy"))
        return {"f": w, "a": [P(j)]}

    def op_construct(self, k, t, i, st):
        """Constructors as ops of a thread (fresh literals; nothing shared)."""
        r = self.rng
        bk = k["backends"]
        sys_ = self.pick_sys()
        mom = r.random() < 0.5
        d = C.dim_of(sys_)
        w = r.choice([b for b in ("obj", "np", "ak") if bk[b]] or ["obj"])
        if r.random() < 0.2:
            # rarely used public entry points
            which = r.choice(("Vector", "from", "arr", "awk", "dim", "coordcls"))
            if which == "Vector":
                return {"f": "vector.Vector", "k": self.coord_kwargs(sys_, mom)}
            if which == "from":
                names = "".join(C.names_of(sys_))
                vals = C.values(r, sys_)
                return {"f": f"vector.VectorObject{d}D.from_{names}", "a": [vals[n] for n in C.names_of(sys_)]}
            if which == "arr":
                names, cols = self._cols(sys_, mom, [2])
                return {"f": "vector.arr", "a": [{nm: cols[nm] for nm in names}]}
            if which == "awk":
                return {"f": "vector.awk", "a": [self._ak_records(sys_, mom, 2, False)]}
            if which == "dim":
                c = self.vec_slots()
                if c:
                    return {"f": "vector.dim", "a": [P(r.choice(c))]}
            if which == "coordcls":
                return {"f": "vector.backends.object.AzimuthalObject" + ("XY" if sys_[0] == "xy" else "RhoPhi"), "a": [1.5, 0.25]}
        if w == "obj":
            return {"f": "vector.obj", "k": self.coord_kwargs(sys_, mom)}
        if w == "np":
            names, cols = self._cols(sys_, mom, [2])
            if r.random() < 0.5:
                return {"f": "vector.array", "a": [{nm: cols[nm] for nm in names}]}
            rows = [[cols[nm][q] for nm in names] for q in range(2)]
            return {"f": "vector.array", "a": [{"$": "rows", "v": rows}], "k": {"dtype": {"$": "dtlist", "v": [[nm, "f8"] for nm in names]}}}
        data = self._ak_records(sys_, mom, 2, False)
        if r.random() < 0.5:
            return {"f": "vector.Array", "a": [data]}
        return {"f": "vector.zip", "a": [{nm: [rec[nm] for rec in data] for nm in data[0]}]}

    def op_badcall(self, k, t, i, st):
        """Calls that raise at different depths."""
        r = self.rng
        w = r.choice(("badnames", "boolval", "missing", "dup", "mixlib", "wrongdim", "baddtype", "notvec", "zip_notdict",
                      "sing_eta", "overflow", "nonnumeric", "nonnumeric", "wrongdim_np"))
        if w == "nonnumeric":
            # a coordinate column of a non-numeric type must be rejected (TypeError), whoever else is running
            bad = r.choice(("?", "c16", "U3", "m8[s]", "O"))
            val = {"?": True, "c16": 1.0, "U3": "a", "m8[s]": 1, "O": 1.0}[bad]
            names = r.choice((["x", "y"], ["rho", "phi", "z"], ["px", "py", "pz", "E"]))
            dtl = [[n, "f8"] for n in names]
            dtl[r.randrange(len(names))][1] = bad
            row = [val if t_ == bad else 1.5 for _, t_ in dtl]
            if r.random() < 0.5:
                return {"f": "vector.array", "a": [{"$": "rows", "v": [row]}], "k": {"dtype": {"$": "dtlist", "v": dtl}}}
            cls = f"vector.{'Momentum' if 'px' in names else 'Vector'}Numpy{len(names)}D"
            return {"f": cls, "a": [{"$": "rows", "v": [row]}], "k": {"dtype": {"$": "dtlist", "v": dtl}}}
        if w == "wrongdim_np":
            a = self.vec_slots(be=("np",))
            if len(a) < 2:
                return None
            ja = r.choice(a)
            c = [j for j in a if self.desc[j].dim != self.desc[ja].dim]
            if not c:
                return None
            return {"f": "." + r.choice(("add", "subtract", "dot", "equal", "isclose", "is_parallel")), "a": [P(ja), P(r.choice(c))]}
        if w == "badnames":
            return {"f": "vector.obj", "k": {"x": 1.0, "phi": 2.0}}
        if w == "boolval":
            return {"f": "vector.obj", "k": {"x": True, "y": 2.0}}
        if w == "missing":
            return {"f": "vector.obj", "k": {"x": 1.0, "y": 2.0, "t": 3.0}}
        if w == "dup":
            return {"f": "vector.obj", "k": {"x": 1.0, "y": 2.0, "z": 1.0, "eta": 0.5}}
        if w == "mixlib":
            a = self.vec_slots(be=("obj", "np"))
            b = self.vec_slots(be=("sym",), exclude_sym=False)
            if not a or not b:
                return None
            ja, jb = r.choice(a), r.choice(b)
            if self.desc[ja].dim != self.desc[jb].dim:
                return {"f": ".deltaphi", "a": [P(ja), P(jb)]}
            return {"f": ".add", "a": [P(ja), P(jb)]}
        if w == "wrongdim":
            a = self.vec_slots()
            if len(a) < 2:
                return None
            ja = r.choice(a)
            c = [j for j in a if self.desc[j].dim != self.desc[ja].dim]
            if not c:
                return None
            return {"f": "." + r.choice(("add", "dot", "equal", "isclose")), "a": [P(ja), P(r.choice(c))]}
        if w == "baddtype":
            return {"f": "vector.array", "a": [{"$": "rows", "v": [[1.0, 2.0]]}], "k": {"dtype": {"$": "dtlist", "v": [["x", "f8"], ["q", "f8"]]}}}
        if w == "notvec":
            a = self.vec_slots()
            if not a:
                return None
            return {"f": ".add", "a": [P(r.choice(a)), 3.0]}
        if w == "zip_notdict":
            return {"f": "vector.zip", "a": [[1.0, 2.0]]}
        if w == "sing_eta":
            o = {"f": "vector.obj", "k": {"rho": 0.0, "phi": 0.5, "z": 1.0}, "defm": 90}
            st["chain"] = [{"f": "." + r.choice(("eta", "theta", "costheta")), "a": [M(90)], "attr": 1}]
            return o
        if w == "overflow":
            o = {"f": "vector.obj", "k": {"x": 1e200, "y": 1.0, "z": 2.0}, "defm": 91}
            st["chain"] = [{"f": "." + r.choice(("rho", "mag", "rho2", "eta")), "a": [M(91)], "attr": 1}]
            return o
        return None

    def op_register(self, k, t, i, st):
        r = self.rng
        if k["awk_mode"] == "registered_before" or k["register_midrun"]:
            return {"f": "vector.register_awkward", "reg": "awkward"}
        return None

    def op_chain(self, k, t, i, st):
        """Use one of this thread's earlier results."""
        r = self.rng
        if not st["vec_results"]:
            return None
        ri, dim = r.choice(st["vec_results"])
        w = r.choice(("prop", "repr", "unit", "binary"))
        if w == "prop":
            return {"f": "." + r.choice(PROPS[2] + (PROPS[3] if dim >= 3 else []) + (PROPS[4] if dim >= 4 else [])), "a": [R(ri)], "attr": 1}
        if w == "repr":
            return {"f": "builtins.repr", "a": [R(ri)]}
        if w == "unit":
            return {"f": ".unit", "a": [R(ri)]}
        c = self.vec_slots(dim=dim)
        if not c:
            return None
        return {"f": "." + r.choice(("add", "subtract", "dot", "deltaphi")), "a": [R(ri), P(r.choice(c))]}

    def op_mutres(self, k, t, i, st):
        """A result that is fresh by contract becomes a private object and is then updated in place:
        if it aliased operand storage, the operand check notices."""
        r = self.rng
        if not st.get("fresh_results"):
            return None
        ri, d = st["fresh_results"].pop(r.randrange(len(st["fresh_results"])))   # each result becomes private at most once
        # from now on the result is a private mutable: nothing later may refer to it as "the value returned earlier"
        st["vec_results"] = [x for x in st["vec_results"] if x[0] != ri]
        slot = 50 + len(st.setdefault("mutres_slots", []))
        st["mutres_slots"].append(slot)
        first = {"f": "vecsim.own", "a": [R(ri)] + [P(j_) for j_ in d.get("operands", [])], "defm": slot}
        names = C.names_of(d["sys"]) if d.get("sys") else ["x"]
        w = r.choice(("imul", "setcol", "iadd"))
        if w == "imul":
            nxt = {"f": "operator.imul", "a": [M(slot), r.choice((3.0, -2.0))], "w": [0], "bind": slot}
        elif w == "iadd":
            nxt = {"f": "operator.iadd", "a": [M(slot), M(slot)], "w": [0], "bind": slot}
        else:
            nxt = {"f": "vecsim.setitem", "a": [M(slot), r.choice(("x", "y", "rho", "phi")), 7.25], "w": [0]}
        st["chain"] = [nxt]
        return first

    def op_mutate(self, k, t, i, st):
        """Private mutable objects: definition, then assignments / in-place ops / out=."""
        r = self.rng
        privs = st["privs"]
        if not privs or (len(privs) < 3 and r.random() < 0.3):
            slot = len(privs)
            src = r.choice(("obj", "np")) if k["backends"]["np"] else "obj"
            if k["backends"].get("sym") and self.vec_slots(be=("sym",), exclude_sym=False) and r.random() < 0.5:
                src = "sym"
            sys_ = self.pick_sys()
            mom = r.random() < 0.5
            d = C.dim_of(sys_)
            if src == "sym":
                names = C.spell(r, sys_, mom)
                kw = {sp: {"$": "sym", "v": g + "p"} for sp, g in zip(names, C.names_of(sys_))}
                privs.append(Desc(be="sym", dim=d, mom=mom, sys=sys_))
                return {"f": f"vector.{'Momentum' if mom else 'Vector'}Sympy{d}D", "k": kw, "defm": slot}
            if src == "obj":
                privs.append(Desc(be="obj", dim=d, mom=mom, sys=sys_))
                return {"f": "vector.obj", "k": self.coord_kwargs(sys_, mom, kinds=("float",)), "defm": slot}
            names, cols = self._cols(sys_, mom, [3])
            privs.append(Desc(be="np", dim=d, mom=mom, sys=sys_, shape=[3]))
            return {"f": "vector.array", "a": [{nm: cols[nm] for nm in names}], "defm": slot}
        slot = r.randrange(len(privs))
        d = privs[slot]
        if d.be == "sym":
            # symbolic private target: out= forms and in-place operators with pooled symbolic operands
            c = self.vec_slots(dim=d.dim, be=("sym",), exclude_sym=False)
            if not c:
                return None
            w = r.choice(("out", "out", "iadd", "isub", "imul"))
            if w == "out":
                u = r.choice(("add", "subtract", "multiply", "negative", "true_divide"))
                if u in ("add", "subtract"):
                    a_ = [P(r.choice(c)), P(r.choice(c))]
                elif u == "negative":
                    a_ = [P(r.choice(c))]
                else:
                    a_ = [P(r.choice(c)), 2]
                return {"f": "numpy." + u, "a": a_, "k": {"out": {"$": "tuple", "v": [M(slot)]}}, "w": ["out"]}
            if w in ("iadd", "isub"):
                return {"f": "operator." + w, "a": [M(slot), P(r.choice(c))], "w": [0], "bind": slot}
            return {"f": "operator.imul", "a": [M(slot), 2], "w": [0], "bind": slot}
        if d.be == "obj":
            w = r.choice(("set", "set", "iadd", "isub", "imul", "idiv", "out"))
            if w == "set":
                g = r.choice(C.names_of(self.pick_sys(d.dim)))
                nm = r.choice(C.SYN[g]) if (d.mom and g in C.SYN and r.random() < 0.6) else g
                # the assignment may change the stored system of that group
                sysl = list(d.sys)
                if g in ("x", "y"):
                    sysl[0] = "xy"
                elif g in ("rho", "phi"):
                    sysl[0] = "rhophi"
                elif g in ("z", "theta", "eta"):
                    sysl[1] = g
                else:
                    sysl[2] = g
                d["sys"] = tuple(sysl)
                return {"f": "builtins.setattr", "a": [M(slot), nm, C.value(r, g)], "w": [0]}
            if w in ("iadd", "isub"):
                c = self.vec_slots(dim=d.dim, be=("obj",)) or self.vec_slots(be=("obj",))
                if not c:
                    return None
                return {"f": "operator." + w, "a": [M(slot), P(r.choice(c))], "w": [0], "bind": slot}
            if w in ("imul", "idiv"):
                return {"f": "operator." + ("imul" if w == "imul" else "itruediv"), "a": [M(slot), self.scalar("fac")], "w": [0], "bind": slot}
            c = self.vec_slots(dim=d.dim, be=("obj",))
            if len(c) < 1:
                return None
            return {"f": "numpy." + r.choice(("add", "subtract")), "a": [P(r.choice(c)), P(r.choice(c))],
                    "k": {"out": {"$": "tuple", "v": [M(slot)]}}, "w": ["out"]}
        # numpy private array
        w = r.choice(("setcol", "setrow", "iadd", "imul"))
        names = C.names_of(d.sys)
        if w == "setcol":
            g = r.choice(names)
            nm = r.choice(C.SYN[g]) if (d.mom and g in C.SYN and r.random() < 0.6) else g
            return {"f": "vecsim.setitem", "a": [M(slot), nm, [C.value(r, g) for _ in range(3)]], "w": [0]}
        if w == "setrow":
            same = r.random() < 0.75   # a right-hand side with other fields makes the assignment raise half-way
            if r.random() < 0.5:
                # a plain structured array the caller holds (momentum spellings when the target is a momentum array)
                sys2 = d.sys if same else self.pick_sys(r.choice((2, 3, 4)))
                nm2 = C.spell(r, sys2, True) if (d.mom and r.random() < 0.8) else C.names_of(sys2)
                if r.random() < 0.4:
                    order = list(range(len(nm2)))
                    r.shuffle(order)
                else:
                    order = list(range(len(nm2)))
                gen2 = C.names_of(sys2)
                rows = [[C.value(r, gen2[q]) for q in order] for _ in range(2)]
                raw = self.add({"f": "numpy.array", "a": [{"$": "rows", "v": rows}], "k": {"dtype": {"$": "dtlist", "v": [[nm2[q], "f8"] for q in order]}}}, be="raw")
                return {"f": "vecsim.setitem", "a": [M(slot), {"$": "slice", "v": [0, 2, None]}, P(raw)], "w": [0]}
            c = [j for j in self.vec_slots(be=("np",)) if (self.desc[j].sys == d.sys) == same and self.desc[j].shape and self.desc[j].shape[0] >= 1
                 and len(self.desc[j].shape) == 1 and (self.desc[j].dim == d.dim or not same)]
            if not c:
                return None
            return {"f": "vecsim.setitem", "a": [M(slot), {"$": "slice", "v": [0, 1, None]},
                                                 {"$": "r", "v": -1}], "w": [0], "_needs_row": r.choice(c)}
        if w == "iadd":
            c = [j for j in self.vec_slots(dim=d.dim, be=("np", "obj"))]
            if not c:
                return None
            return {"f": "operator.iadd", "a": [M(slot), P(r.choice(c))], "w": [0], "bind": slot}
        return {"f": "operator.imul", "a": [M(slot), self.scalar("fac")], "w": [0], "bind": slot}

    # -------------------------------------------------------------- programs
    def build_progs(self, k):
        progs = []
        for t in range(k["nthreads"]):
            st = {"privs": [], "vec_results": [], "chain": []}
            prog = []
            n = k["nops"]
            while len(prog) < n:
                if st["chain"]:
                    op = st["chain"].pop(0)
                    op.setdefault("cat", "chain")
                else:
                    op = self.gen_op(k, t, len(prog), st)
                if "_needs_row" in op:
                    # materialise the right-hand side (a one-row view of a pooled array) as an own result first
                    src = op.pop("_needs_row")
                    prog.append({"f": "vecsim.getitem", "a": [P(src), {"$": "slice", "v": [0, 1, None]}], "cat": "index"})
                    op["a"][2] = R(len(prog) - 1)
                prog.append(op)
                f = op["f"]
                if f in (".add", ".subtract", ".unit", ".scale", ".rotateZ") or f.startswith(".to_"):
                    j = op["a"][0]
                    if j.get("$") == "p":
                        st["vec_results"].append((len(prog) - 1, self.desc[j["v"]].dim))
                        dj = self.desc[j["v"]]
                        # results that must be fresh storage: arithmetic, and conversions that change the dimension
                        fresh = f in (".add", ".subtract", ".unit", ".scale", ".rotateZ", ".scale2D", ".scale3D", ".rotateX", ".rotateY") or \
                            (f in (".to_Vector2D", ".to_2D") and dj.dim > 2) or (f in (".to_Vector3D", ".to_3D") and dj.dim != 3) or \
                            (f in (".to_Vector4D", ".to_4D") and dj.dim != 4)
                        if fresh and dj.be == "np":
                            st.setdefault("fresh_results", []).append(
                                (len(prog) - 1, {"sys": None, "operands": [v_ for t_, v_ in __import__("vecsim.ops", fromlist=["x"]).op_refs(op) if t_ == "p"]}))
            progs.append(prog)
        return progs

    def build_faults(self, k, progs):
        r = self.rng
        out = []
        if not k["faults"]:
            return out
        cands = []
        for t, prog in enumerate(progs):
            for i, op in enumerate(prog):
                if op["f"].startswith(".") or op["f"].startswith("operator.") or op["f"].startswith("numpy."):
                    cands.append((t, i))
        r.shuffle(cands)
        for (t, i) in cands[: r.choice((1, 2, 3))]:
            seam = r.choice(k["fault_kinds"])
            out.append({"t": t, "i": i, "seam": seam, "n": r.choice((1, 1, 2, 3, 5)),
                        "exc": r.choice(("FloatingPointError", "MemoryError", "OverflowError", "ZeroDivisionError", "SimCancel", "Reenter"))})
        return out

    def world(self):
        k = self.knobs()
        self.build_pool(k)
        if not self.vec_slots(exclude_sym=False):
            self.mk_obj(k)
        progs = self.build_progs(k)
        faults = self.build_faults(k, progs)
        cfg = {"awk_mode": k["awk_mode"], "errstate": k["errstate"], "warnfilter": k["warnfilter"],
               "printopts": k["printopts"], "simlib": bool(faults) and any(f["seam"] in ("lib", "alloc") for f in faults)}
        w = {"kind": "world", "seed": self.seed, "config": cfg, "pool": self.pool, "progs": progs, "faults": faults,
             "cold": self.tier == "thorough" and self.rng.random() < 0.01,
             "sched": k["sched"], "knobs": {kk: k[kk] for kk in ("nthreads", "nops", "backends", "cats", "faults", "hazard_values", "hazard_findings", "register_midrun")}}
        return w


def make_world(seed, tier="quick", focus="C20"):
    return WorldGen(seed, tier, focus).world()
