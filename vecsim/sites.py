"""AST scan of /repo/src/vector for the places where shared state is touched.

Targets for directed schedules are *found in the code at start-up*, never
hard-coded line numbers:
  * every line inside a ``with`` body (the error-state override of each dispatch()),
  * stores to module globals (``global`` statements), to class attributes
    (``ClassName.attr = ...``) and to ``self.dtype...``,
  * reads of ``_awkward_registered``,
  * lines inside ``__array_finalize__``, ``__new__``, ``_wrap_result``, ``Array``, ``zip``,
    ``register_awkward``.
"""

from __future__ import annotations

import ast
import os

from . import env

_HOT_FUNCS = {"__array_finalize__", "__new__", "_wrap_result", "Array", "zip", "register_awkward",
              "_replace_data", "_setitem", "_getitem", "__setstate__", "__reduce__"}


def scan():
    sites = {"with": [], "store": [], "flag": [], "func": [], "mut": [], "glob": [], "pstore": []}
    dispatch_with = []  # (relpath, first body line, last body line)
    for root, dirs, files in os.walk(env.VECTOR_DIR):
        dirs.sort()
        if "__pycache__" in dirs:
            dirs.remove("__pycache__")
        for f in sorted(files):
            if not f.endswith(".py") or f.startswith("_numba"):
                continue
            p = os.path.join(root, f)
            rel = os.path.relpath(p, env.VECTOR_DIR)
            try:
                tree = ast.parse(open(p).read())
            except SyntaxError:
                continue
            classnames = {n.name for n in ast.walk(tree) if isinstance(n, ast.ClassDef)}
            # module-level mutable containers (tables, caches, registries) and the functions that touch them
            containers = set()
            for node in tree.body:
                if isinstance(node, (ast.Assign, ast.AnnAssign)):
                    val = node.value
                    tg = node.targets if isinstance(node, ast.Assign) else [node.target]
                    if isinstance(val, (ast.Dict, ast.List, ast.Set, ast.Call, ast.DictComp, ast.ListComp, ast.SetComp)):
                        for t_ in tg:
                            if isinstance(t_, ast.Name):
                                containers.add(t_.id)
            if containers:
                _MUTATORS = {"clear", "update", "pop", "popitem", "append", "extend", "add", "remove", "discard", "insert",
                             "setdefault", "move_to_end", "appendleft", "popleft", "sort", "reverse"}
                written = set()
                for fnode in ast.walk(tree):
                    if not isinstance(fnode, ast.FunctionDef):
                        continue
                    for n in ast.walk(fnode):
                        if isinstance(n, (ast.Assign, ast.AugAssign, ast.Delete)):
                            tg = n.targets if isinstance(n, (ast.Assign, ast.Delete)) else [n.target]
                            for t_ in tg:
                                if isinstance(t_, ast.Subscript) and isinstance(t_.value, ast.Name) and t_.value.id in containers:
                                    written.add(t_.value.id)
                        elif isinstance(n, ast.Call) and isinstance(n.func, ast.Attribute) and n.func.attr in _MUTATORS \
                                and isinstance(n.func.value, ast.Name) and n.func.value.id in containers:
                            written.add(n.func.value.id)
                        elif isinstance(n, ast.Global):
                            written.update(x for x in n.names if x in containers)
                # only containers that some function *changes at run time* (read-only tables are not shared state)
                for fnode in ast.walk(tree):
                    if isinstance(fnode, ast.FunctionDef) and any(isinstance(n, ast.Name) and n.id in written for n in ast.walk(fnode)):
                        for sub in ast.walk(fnode):
                            if isinstance(sub, ast.stmt) and sub is not fnode:
                                sites["glob"].append(f"{rel}:{sub.lineno}")
            # candidate operand mutations: stores through an attribute / subscript, augmented assignment to a parameter
            for fnode in ast.walk(tree):
                if not isinstance(fnode, ast.FunctionDef):
                    continue
                params = {a.arg for a in fnode.args.args + fnode.args.kwonlyargs}
                if fnode.args.vararg:
                    params.add(fnode.args.vararg.arg)
                if fnode.name not in ("__init__", "__new__", "__post_init__"):
                    # per-call state kept on an object that callers may share (``self.x = ...`` / ``param.x = ...`` outside
                    # a constructor): the store and every later statement of the function is a window in which another
                    # caller of the same object can overwrite it
                    first = None
                    for node in ast.walk(fnode):
                        if isinstance(node, (ast.Assign, ast.AugAssign, ast.AnnAssign)):
                            tg = node.targets if isinstance(node, ast.Assign) else [node.target]
                            if any(isinstance(t, ast.Attribute) and isinstance(t.ctx, ast.Store) and isinstance(t.value, ast.Name) and t.value.id in params
                                   for t0 in tg for t in ast.walk(t0)):
                                first = node.lineno if first is None else min(first, node.lineno)
                    if first is not None:
                        for sub in ast.walk(fnode):
                            if isinstance(sub, ast.stmt) and sub is not fnode and sub.lineno >= first:
                                sites["pstore"].append(f"{rel}:{sub.lineno}")
                for node in ast.walk(fnode):
                    if isinstance(node, ast.AugAssign):
                        t = node.target
                        if (isinstance(t, ast.Name) and t.id in params) or isinstance(t, (ast.Attribute, ast.Subscript)):
                            sites["mut"].append(f"{rel}:{node.lineno}")
                    elif isinstance(node, ast.Assign):
                        if any(isinstance(t, (ast.Attribute, ast.Subscript)) for t in node.targets):
                            sites["mut"].append(f"{rel}:{node.lineno}")
            for node in ast.walk(tree):
                if isinstance(node, ast.With):
                    lines = set()
                    for b in node.body:
                        for sub in ast.walk(b):
                            if hasattr(sub, "lineno"):
                                lines.add(sub.lineno)
                    for ln in sorted(lines):
                        sites["with"].append(f"{rel}:{ln}")
                    if lines:
                        dispatch_with.append((rel, min(lines), max(lines)))
                elif isinstance(node, (ast.Assign, ast.AugAssign, ast.AnnAssign)):
                    targets = node.targets if isinstance(node, ast.Assign) else [node.target]
                    for t in targets:
                        if isinstance(t, ast.Attribute):
                            base = t.value
                            chain = []
                            while isinstance(base, ast.Attribute):
                                chain.append(base.attr)
                                base = base.value
                            if isinstance(base, ast.Name):
                                if base.id in classnames or (base.id == "self" and "dtype" in chain + [t.attr]):
                                    sites["store"].append(f"{rel}:{node.lineno}")
                elif isinstance(node, ast.Global):
                    fn = _enclosing_function(tree, node)
                    if fn is not None:
                        for sub in ast.walk(fn):
                            if isinstance(sub, (ast.Assign, ast.AugAssign)) and hasattr(sub, "lineno"):
                                sites["store"].append(f"{rel}:{sub.lineno}")
                elif isinstance(node, ast.Attribute) and node.attr == "_awkward_registered":
                    sites["flag"].append(f"{rel}:{node.lineno}")
                elif isinstance(node, ast.Name) and node.id == "_awkward_registered":
                    sites["flag"].append(f"{rel}:{node.lineno}")
                elif isinstance(node, ast.FunctionDef) and node.name in _HOT_FUNCS:
                    for sub in ast.walk(node):
                        if isinstance(sub, ast.stmt) and sub is not node:
                            sites["func"].append(f"{rel}:{sub.lineno}")
    for k in sites:
        sites[k] = sorted(set(sites[k]))
    sites["dispatch_with"] = dispatch_with
    return sites


def _enclosing_function(tree, target):
    for node in ast.walk(tree):
        if isinstance(node, ast.FunctionDef):
            for sub in ast.walk(node):
                if sub is target:
                    return node
    return None


_cache = None


def get():
    global _cache
    if _cache is None:
        _cache = scan()
    return _cache


def hot_sites(which=("with", "store", "flag", "func")):
    s = get()
    out = []
    for w in which:
        out.extend(s[w])
    return sorted(set(out))
