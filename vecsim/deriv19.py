"""C19 - NumPy vector arrays behave as arrays of vectors: derivation histories.

A pool of arrays grows by construct -> slice / mask / integer-array index / reshape /
transpose / view(cls) / view(ndarray) and back / copy / deepcopy / pickle restart ->
explicit assignment through any alias -> derive again.  The reference model of
"array-ness" is a *plain numpy structured twin* on which the same derivation is
performed (values, shape, aliasing), plus explicit bookkeeping of (flavor, coordinate
system).  Invariants are evaluated for every live array after every step."""

from __future__ import annotations

import random

from . import coords as C
from . import snapshot

SUF = {"x": "XY", "y": "XY", "rho": "RhoPhi", "phi": "RhoPhi", "z": "Z", "theta": "Theta", "eta": "Eta", "t": "T", "tau": "Tau"}


def gen_case(seed, tier="quick"):
    rng = random.Random(seed)
    sys_ = C.SYSTEMS[rng.randrange(20)]
    mom = rng.random() < 0.5
    gn = C.names_of(sys_)
    names = C.spell(rng, sys_, mom) if mom else list(gn)
    shape = rng.choice(([3], [4], [1], [2, 3], [3, 2], [2, 2, 2], [1, 3], [5], [], [0], [2, 0]))
    n = 1
    for s in shape:
        n *= s
    dt = rng.choice(("f8", "f8", "f8", "f4", "i8", ">f8", "<f4", "i4"))
    cols = {}
    hz_ = rng.random() < 0.2 and dt in ("f8", ">f8")     # special values: -0.0, denormals, nan, inf, +-pi, 1e200
    for g in gn:
        vals = [C.value(rng, g, hazard=(hz_ and rng.random() < 0.3)) for _ in range(n)]
        if dt in ("i8", "i4"):
            vals = [int(round(v)) or 1 for v in vals]
            if dt == "i8" and rng.random() < 0.3:
                # integers a float64 cannot represent: coordinates must come back exactly
                vals = [v + (2 ** 53 + 1 if rng.random() < 0.5 else 0) for v in vals]
        cols[g] = vals
    how = rng.choice(("cols", "rows", "cls", "view", "dtobj")) if (len(shape) == 1 and n > 0) else "cols"
    order = list(range(len(gn)))
    if how != "cols" and rng.random() < 0.3:
        rng.shuffle(order)       # a structured dtype may list its fields in any order
    nsteps = rng.choice((1, 2, 3, 5, 8, 12)) if tier == "quick" else rng.choice((3, 6, 12, 20))
    steps = []
    kinds = ["slice", "slice", "mask", "intidx", "reshape", "transpose", "viewcls", "viewnd", "copy", "deepcopy", "pickle",
             "write_col", "write_elem", "write_rows", "flavor", "coordview", "asarray", "element", "objarray", "newaxis", "ravel", "int", "int", "ellipsis", "ellipsis", "copyF", "swapaxes", "dimcast", "dimcast", "tupidx", "tupidx", "iterate", "boollist", "reshapeF"]
    for _ in range(nsteps):
        k = rng.choice(kinds)
        st = {"s": k, "src": rng.randrange(1 << 16), "r": [rng.randrange(1 << 16) for _ in range(4)]}
        if k in ("write_col", "write_elem", "write_rows"):
            st["vals"] = [round(rng.uniform(-9, 9), 3) for _ in range(8)]
        steps.append(st)
    return {"kind": "deriv19", "seed": seed, "sys": list(sys_), "mom": mom, "names": names, "gnames": gn, "shape": shape, "dtype": dt,
            "cols": cols, "how": how, "order": order, "steps": steps, "fresh": rng.random() < (0.1 if tier == "thorough" else 0.004)}


def _py(x):
    return x.item() if hasattr(x, "item") else x


def _same_number(a, b):
    """Exact: Python compares int and float exactly, so 2**53+1 != float(2**53+1)."""
    a, b = _py(a), _py(b)
    try:
        if a != a and b != b:
            return True
        return a == b
    except Exception:
        return False


def _generic(names):
    """Field names with momentum spellings mapped to geometric ones (which spelling the dtype shows is not part of C19)."""
    return tuple(C.GENERIC_OF.get(n, n) for n in (names or ()))


def _viol(aspect, i, st, detail):
    return {"prop": "C19", "inv": "I6", "aspect": aspect, "site": f"S:{i}:{st['s']}:{st.get('what', '')}", "pass": "deriv", "detail": str(detail)[:500]}


class Live:
    __slots__ = ("arr", "twin", "mom", "origin", "dim")

    def __init__(self, arr, twin, mom, origin, dim=None):
        self.arr = arr      # the vector array
        self.twin = twin    # plain numpy structured array with generic field names: the model
        self.mom = mom
        self.origin = origin
        self.dim = dim      # dimension of the vector class (a view-cast to a lower-dimensional class keeps the other fields as extras)


def _plain(vector, case):
    import numpy

    gn = case["gnames"]
    shape = case["shape"]
    dt = case["dtype"]
    order = case.get("order") or list(range(len(gn)))
    t = numpy.zeros(shape, dtype=[(gn[q], dt) for q in order])
    for g in gn:
        t[g] = numpy.array(case["cols"][g], dtype=dt).reshape(shape)
    return t


def _construct(vector, case):
    import numpy

    gn, names, shape, dt, how, mom = case["gnames"], case["names"], case["shape"], case["dtype"], case["how"], case["mom"]
    dim = len(gn)
    n = len(case["cols"][gn[0]])
    if how == "cols":
        return vector.array({nm: numpy.array(case["cols"][g], dtype=dt).reshape(shape) for nm, g in zip(names, gn)})
    order = case.get("order") or list(range(len(gn)))
    rows = [tuple(case["cols"][gn[q]][i] for q in order) for i in range(n)]
    dtl = [(names[q], dt) for q in order]
    cls = getattr(vector, f"{'Momentum' if mom else 'Vector'}Numpy{dim}D")
    if how == "rows":
        return vector.array(rows, dtype=dtl)
    if how == "cls":
        return cls(rows, dtype=dtl)
    if how == "dtobj":
        return vector.array(rows, dtype=numpy.dtype(dtl))
    return numpy.array(rows, dtype=dtl).view(cls)


def check_array(vector, L, i, st, viol, case, deep=True):
    """All per-array invariants of C19 against the model."""
    import numpy
    import vector.backends.numpy as vnp
    import vector.backends.object as vob

    a, t = L.arr, L.twin
    gn_all = case["gnames"]
    dim = L.dim or len(gn_all)
    gn = gn_all[:dim]
    order = case.get("order") or list(range(len(gn_all)))
    fields = tuple(gn_all[q] for q in order)     # the dtype's own field order
    want_cls = getattr(vector, f"{'Momentum' if L.mom else 'Vector'}Numpy{dim}D")
    if type(a) is not want_cls:
        viol.append(_viol("array-class", i, st, f"{type(a).__name__} expected {want_cls.__name__} ({L.origin})"))
        return False
    real_dt = numpy.ndarray.dtype.__get__(a)
    if _generic(real_dt.names) != fields:
        viol.append(_viol("dtype-names", i, st, f"{real_dt.names} expected {fields} ({L.origin})"))
        return False
    if a.shape != t.shape:
        viol.append(_viol("shape", i, st, f"{a.shape} expected {t.shape} ({L.origin})"))
        return False
    if a.view(numpy.ndarray).tobytes() != t.tobytes() or [real_dt[q] for q in range(len(fields))] != [t.dtype[g] for g in fields]:
        viol.append(_viol("values", i, st, f"{a.view(numpy.ndarray)!r} expected {t!r} ({L.origin})"))
        return False
    # coordinate classes re-derived on this view
    want = {"_azimuthal_type": "AzimuthalNumpy" + SUF[gn[0]]}
    if dim >= 3:
        want["_longitudinal_type"] = "LongitudinalNumpy" + SUF[gn[2]]
    if dim >= 4:
        want["_temporal_type"] = "TemporalNumpy" + SUF[gn[3]]
    for k, v in want.items():
        got = getattr(a, k, None)
        if getattr(got, "__name__", None) != v:
            viol.append(_viol("coordinate-class", i, st, f"{k}={getattr(got, '__name__', got)} expected {v} ({L.origin})"))
            return False
    extra = set(getattr(a, "__dict__", {})) - set(want)
    if not deep:
        return True
    # columns by geometric name and by synonym: the stored column, aliasing the storage
    for g in gn_all:
        for nm in (g,) + (C.SYN.get(g, ()) if L.mom else ()):
            try:
                col = a[nm]
            except Exception as e:
                viol.append(_viol("column-access", i, dict(st, what=nm), f"[{nm!r}] raised {type(e).__name__}: {e}"))
                continue
            if type(col) is not numpy.ndarray or col.dtype != t.dtype[g] or col.shape != t.shape or col.tobytes() != t[g].tobytes():
                viol.append(_viol("column-values", i, dict(st, what=nm), f"[{nm!r}] = {col!r} expected {t[g]!r}"))
            elif a.size and not numpy.shares_memory(col, a.view(numpy.ndarray)):
                viol.append(_viol("column-not-a-view", i, dict(st, what=nm), f"[{nm!r}] does not alias the array"))
    # elements
    if a.size:
        idxs = [tuple(0 for _ in a.shape), tuple(s - 1 for s in a.shape)]
        for idx in idxs:
            key = idx if len(idx) != 1 else idx[0]   # () for a 0-d array
            try:
                el = a[key]
            except Exception as e:
                viol.append(_viol("element-access", i, st, f"[{key}] raised {type(e).__name__}: {e}"))
                continue
            want_obj = getattr(vector, f"{'Momentum' if L.mom else 'Vector'}Object{dim}D")
            if type(el) is not want_obj:
                viol.append(_viol("element-class", i, st, f"[{key}] is {type(el).__name__} expected {want_obj.__name__}"))
                continue
            groups = [("azimuthal", gn[:2])] + ([("longitudinal", gn[2:3])] if dim >= 3 else []) + ([("temporal", gn[3:4])] if dim >= 4 else [])
            for gname, cn in groups:
                c = getattr(el, gname)
                wantc = {"azimuthal": "AzimuthalObject", "longitudinal": "LongitudinalObject", "temporal": "TemporalObject"}[gname] + SUF[cn[0]]
                if type(c).__name__ != wantc:
                    viol.append(_viol("element-coordinate-class", i, st, f"[{key}].{gname} is {type(c).__name__} expected {wantc}"))
                    continue
                for q, g in enumerate(cn):
                    wv = t[idx][g]
                    if not _same_number(c[q], wv):   # the number, whatever scalar type carries it - but exactly
                        viol.append(_viol("element-values", i, st, f"[{key}].{g} = {c[q]!r} expected {wv!r}"))
    return True


def _check_element(vector, L, el, rec, i, st, viol, case, origin):
    gn_all = case["gnames"]
    dim = L.dim or len(gn_all)
    gn = gn_all[:dim]
    want_obj = getattr(vector, f"{'Momentum' if L.mom else 'Vector'}Object{dim}D")
    if type(el) is not want_obj:
        viol.append(_viol("element-class", i, st, f"{origin} is {type(el).__name__} expected {want_obj.__name__}"))
        return
    groups = [("azimuthal", gn[:2])] + ([("longitudinal", gn[2:3])] if dim >= 3 else []) + ([("temporal", gn[3:4])] if dim >= 4 else [])
    for gname, cn in groups:
        c = getattr(el, gname)
        wantc = {"azimuthal": "AzimuthalObject", "longitudinal": "LongitudinalObject", "temporal": "TemporalObject"}[gname] + SUF[cn[0]]
        if type(c).__name__ != wantc:
            viol.append(_viol("element-coordinate-class", i, st, f"{origin}.{gname} is {type(c).__name__} expected {wantc}"))
            continue
        for q, g in enumerate(cn):
            if not _same_number(c[q], rec[g]):
                viol.append(_viol("element-values", i, st, f"{origin}.{g} = {c[q]!r} expected {rec[g]!r}"))


def run_case(case, vector):
    import copy
    import pickle

    import numpy
    import vector.backends.numpy as vnp

    viol = []
    stats = {"steps": 0, "raised": 0, "natural_exc": {}, "faults_planned": 0, "faults_fired": {"lib": 0, "flt": 0, "alloc": 0},
             "states": set(), "arrays": 0, "alias_pairs": 0, "writes": 0, "restarts": 0}
    gn = case["gnames"]
    dim = len(gn)
    st0 = {"s": "construct", "what": case["how"]}
    try:
        a0 = _construct(vector, case)
    except Exception as e:
        viol.append(_viol("construct-raised", -1, st0, f"{type(e).__name__}: {e}"))
        return _done(viol, stats, case)
    live = [Live(a0, _plain(vector, case), case["mom"], f"construct:{case['how']}")]
    check_array(vector, live[0], -1, st0, viol, case)

    def derive(L, fa, ft, mom=None, origin="", dim=None):
        """Apply the same derivation to the array and to its plain twin."""
        try:
            na = fa(L.arr)
        except Exception as e:
            try:
                ft(L.twin)
            except Exception:
                return None  # both refuse: fine
            viol.append(_viol("derivation-raised", i, st, f"{origin}: {type(e).__name__}: {e}"))
            return None
        nt = ft(L.twin)
        if isinstance(nt, numpy.void):
            # the plain twin yields one record: the vector array must yield the corresponding vector *object*
            _check_element(vector, L, na, nt, i, st, viol, case, origin)
            return None
        if not isinstance(na, numpy.ndarray):
            viol.append(_viol("array-class", i, st, f"{origin}: got {type(na).__name__}, the plain-numpy model gives an array of shape {getattr(nt, 'shape', None)}"))
            return None
        if origin.startswith(("reshape", "ravel")) and isinstance(na, numpy.ndarray) and na.size:
            # whether reshape/ravel returns a view or a copy is numpy's decision from the memory layout
            # (an unpickled or transposed array may be F-ordered); the model follows it
            if numpy.shares_memory(nt, L.twin) and not numpy.shares_memory(na.view(numpy.ndarray), L.arr.view(numpy.ndarray)):
                nt = nt.copy()
            elif not numpy.shares_memory(nt, L.twin) and numpy.shares_memory(na.view(numpy.ndarray), L.arr.view(numpy.ndarray)):
                return None  # cannot model a view where the plain twin had to copy: skip this derivation
        return Live(na, nt, L.mom if mom is None else mom, origin, dim if dim is not None else L.dim)

    for i, st in enumerate(case["steps"]):
        stats["steps"] += 1
        L = live[st["src"] % len(live)]
        a, t = L.arr, L.twin
        Ldim = L.dim or dim
        r = st["r"]
        k = st["s"]
        stats["states"].add(f"{'M' if L.mom else 'V'}{dim}D|{'.'.join(SUF[g] for g in gn)}|ndim{a.ndim}|{k}")
        new = None
        if k == "slice":
            if a.ndim == 0:
                continue
            n0 = a.shape[0]
            lo = r[0] % (n0 + 1)
            hi = lo + r[1] % (n0 - lo + 1)
            step = (1, 1, 2, -1)[r[2] % 4]
            sl = slice(lo, hi, step) if step > 0 else slice(None, None, -1)
            if a.ndim > 1 and r[3] % 2:
                sl = (slice(None), slice(0, max(a.shape[1] - 1, 0)))
            new = derive(L, lambda x: x[sl], lambda x: x[sl], origin=f"slice{sl}")
        elif k == "int":
            # an integer index: the element (object vector) of a 1-D array, a sub-array of the same class otherwise
            if a.ndim == 0 or a.shape[0] == 0:
                continue
            ii = r[0] % (2 * a.shape[0]) - a.shape[0]
            if r[1] % 3 == 0:
                ii = numpy.int64(ii)
            if a.ndim == 1:
                check_array(vector, L, i, st, viol, case)
                continue
            new = derive(L, lambda x: x[ii], lambda x: x[ii], origin=f"int[{ii}]")
        elif k == "tupidx":
            # tuples mixing integers (Python, numpy.int64, numpy.uint8, negative), slices, Ellipsis and newaxis
            if a.ndim == 0 or a.size == 0:
                new = derive(L, lambda x: x[()], lambda x: x[()], origin="[()]")
            else:
                parts = []
                for q, sdim in enumerate(a.shape):
                    w = r[q % 4] % 5
                    if w == 0:
                        parts.append(slice(None))
                    elif w == 1:
                        parts.append(int(r[(q + 1) % 4] % sdim) - sdim)
                    elif w == 2:
                        parts.append(numpy.int64(r[(q + 2) % 4] % sdim))
                    elif w == 3:
                        parts.append(numpy.uint8(r[(q + 3) % 4] % sdim))
                    else:
                        parts.append(slice(r[q % 4] % sdim, None, 1 + r[(q + 1) % 4] % 2))
                if r[3] % 4 == 0:
                    parts.insert(r[2] % (len(parts) + 1), None)
                elif r[3] % 4 == 1 and len(parts) > 1:
                    parts = parts[:1] + [Ellipsis]
                idx_t = tuple(parts)
                new = derive(L, lambda x: x[idx_t], lambda x: x[idx_t], origin=f"[{idx_t}]")
        elif k == "iterate":
            if a.ndim != 1 or a.shape[0] == 0:
                continue
            try:
                els = [e for e in a]
            except Exception as e:
                viol.append(_viol("iteration-raised", i, st, f"{type(e).__name__}: {e}"))
                continue
            if len(els) != a.shape[0]:
                viol.append(_viol("iteration-length", i, st, f"{len(els)} expected {a.shape[0]}"))
            for q, e in enumerate(els):
                _check_element(vector, L, e, t[q], i, st, viol, case, f"iter[{q}]")
            continue
        elif k == "boollist":
            if a.ndim == 0 or a.shape[0] == 0:
                continue
            ml = [bool((r[0] >> q) & 1) for q in range(a.shape[0])]
            new = derive(L, lambda x: x[ml], lambda x: x[ml], origin="[list of bool]")
        elif k == "reshapeF":
            if a.ndim < 2:
                continue
            new = derive(L, lambda x: x.reshape(-1, order="F"), lambda x: x.reshape(-1, order="F"), origin="reshape(-1, order=F)")
        elif k == "ellipsis":
            # x[...] and x[i, ...] are views (0-d ones included): still arrays of the same class
            if a.ndim >= 1 and a.shape[0] and r[0] % 2:
                ii = r[1] % a.shape[0]
                new = derive(L, lambda x: x[ii, ...], lambda x: x[ii, ...], origin=f"[{ii}, ...]")
            else:
                new = derive(L, lambda x: x[...], lambda x: x[...], origin="[...]")
        elif k == "copyF":
            new = derive(L, lambda x: x.copy(order="F"), lambda x: x.copy(order="F"), origin="copy(order=F)")
        elif k == "swapaxes":
            if a.ndim < 2:
                continue
            new = derive(L, lambda x: x.swapaxes(0, -1), lambda x: x.swapaxes(0, -1), origin="swapaxes(0,-1)")
        elif k == "mask":
            if a.ndim == 0 or a.shape[0] == 0:
                continue
            if a.ndim >= 2 and r[1] % 2 and a.size:
                # a mask of the full shape selects elements: a 1-D array of the same class
                m = (numpy.arange(a.size).reshape(a.shape) * 7 + r[0]) % 3 != 0
                new = derive(L, lambda x: x[m], lambda x: x[m], origin="mask(full shape)")
                if new is not None:
                    live.append(new)
                    stats["arrays"] += 1
                    check_array(vector, new, i, st, viol, case)
                continue
            m = numpy.array([(r[0] >> q) & 1 for q in range(a.shape[0])], dtype=bool)
            new = derive(L, lambda x: x[m], lambda x: x[m], origin="mask")
        elif k == "intidx":
            if a.ndim == 0 or a.shape[0] == 0:
                continue
            ix = numpy.array([r[q] % a.shape[0] for q in range(3)])
            new = derive(L, lambda x: x[ix], lambda x: x[ix], origin="intidx")
        elif k == "reshape":
            shp = (-1,) if r[0] % 2 else (a.size, 1)
            new = derive(L, lambda x: x.reshape(shp), lambda x: x.reshape(shp), origin=f"reshape{shp}")
        elif k == "ravel":
            new = derive(L, lambda x: x.ravel(), lambda x: x.ravel(), origin="ravel")
        elif k == "newaxis":
            new = derive(L, lambda x: x[numpy.newaxis], lambda x: x[numpy.newaxis], origin="newaxis")
        elif k == "transpose":
            new = derive(L, lambda x: x.T, lambda x: x.T, origin="T")
        elif k == "viewcls":
            cls = type(a)
            new = derive(L, lambda x: x.view(cls), lambda x: x.view(), origin="view(same class)")
        elif k == "viewnd":
            cls = type(a)
            new = derive(L, lambda x: x.view(numpy.ndarray).view(cls), lambda x: x.view(), origin="view(ndarray).view(cls)")
        elif k == "flavor":
            # cast to the other flavor (documented view-cast); names are generic already, numbers must not change
            cls = getattr(vector, f"{'Vector' if L.mom else 'Momentum'}Numpy{L.dim or dim}D")
            new = derive(L, lambda x: x.view(cls), lambda x: x.view(), mom=not L.mom, origin=f"view({cls.__name__})")
        elif k == "dimcast":
            # view-cast to the vector class of a *lower* dimension (the remaining coordinates become extra fields),
            # in the same or in the other flavor
            cur = L.dim or dim
            if cur <= 2:
                continue
            nd = 2 + r[0] % (cur - 2)
            mo = L.mom if r[1] % 2 else (not L.mom)
            cls = getattr(vector, f"{'Momentum' if mo else 'Vector'}Numpy{nd}D")
            new = derive(L, lambda x: x.view(cls), lambda x: x.view(), mom=mo, origin=f"view({cls.__name__})", dim=nd)
        elif k == "copy":
            w = r[0] % 2
            fa = (lambda x: x.copy(), lambda x: copy.copy(x))[w]
            new = derive(L, fa, lambda x: x.copy(), origin=f"copy{w}")
        elif k == "deepcopy":
            new = derive(L, lambda x: copy.deepcopy(x), lambda x: x.copy(), origin="deepcopy")
        elif k == "pickle":
            stats["restarts"] += 1
            if case.get("fresh"):
                stats["fresh"] = stats.get("fresh", 0) + 1
                new = derive(L, _fresh_restart, lambda x: x.copy(), origin="pickle(fresh interpreter)")
            else:
                proto = (2, 4, pickle.HIGHEST_PROTOCOL)[r[0] % 3]
                new = derive(L, lambda x: pickle.loads(pickle.dumps(x, protocol=proto)), lambda x: x.copy(), origin=f"pickle(proto {proto})")
        elif k in ("write_col", "write_elem", "write_rows"):
            stats["writes"] += 1
            g = gn[r[0] % dim]
            nm = g
            if L.mom and g in C.SYN and r[1] % 2:
                nm = C.SYN[g][r[2] % len(C.SYN[g])]
            vals = st["vals"]
            try:
                if k == "write_col":
                    v = numpy.resize(numpy.array(vals, dtype=t.dtype[g]), t.shape)
                    a[nm] = v
                    t[g] = v
                elif k == "write_elem":
                    if a.size == 0:
                        continue
                    col = a[nm]            # the stored column: a write through it must reach every alias
                    idx = tuple(r[(q + 1) % 4] % s for q, s in enumerate(a.shape))
                    col[idx] = vals[0]
                    t[g][idx] = vals[0]
                else:
                    if a.ndim != 1 or a.shape[0] == 0:
                        continue
                    lo = r[1] % a.shape[0]
                    rows = numpy.zeros(a.shape[0] - lo, dtype=[(x, t.dtype[x]) for x in gn])
                    for q, x in enumerate(gn):
                        rows[x] = numpy.resize(numpy.array(vals[q:] + vals[:q], dtype=t.dtype[x]), rows.shape)
                    a[lo:] = rows
                    for x in gn:
                        t[x][lo:] = rows[x]    # vector assigns rows by field *name* (plain numpy would go by position)
            except Exception as e:
                viol.append(_viol("write-raised", i, dict(st, what=nm), f"{k} through {nm!r}: {type(e).__name__}: {e}"))
                continue
        elif k == "coordview":
            grp = ("azimuthal", "longitudinal", "temporal")[r[0] % min(Ldim - 1, 3)]
            try:
                c = getattr(a, grp)
            except Exception as e:
                viol.append(_viol("coordinate-view-raised", i, dict(st, what=grp), f"{type(e).__name__}: {e}"))
                continue
            cn = {"azimuthal": gn[:2], "longitudinal": gn[2:3], "temporal": gn[3:4]}[grp]
            want = {"azimuthal": "AzimuthalNumpy", "longitudinal": "LongitudinalNumpy", "temporal": "TemporalNumpy"}[grp] + SUF[cn[0]]
            if type(c).__name__ != want:
                viol.append(_viol("coordinate-view-class", i, dict(st, what=grp), f"{type(c).__name__} expected {want}"))
            else:
                els = c.elements
                for q, g in enumerate(cn):
                    if els[q].tobytes() != t[g].tobytes():
                        viol.append(_viol("coordinate-view-values", i, dict(st, what=grp), f"{g}: {els[q]!r} expected {t[g]!r}"))
            continue
        elif k == "asarray":
            p = numpy.asarray(a)
            if type(p) is not numpy.ndarray or _generic(p.dtype.names) != _generic(t.dtype.names) or p.tobytes() != t.tobytes() or p.shape != t.shape:
                viol.append(_viol("asarray", i, st, f"{p!r} expected plain {t!r}"))
            q = numpy.asanyarray(a)
            if type(q) is not type(a) or q.view(numpy.ndarray).tobytes() != t.tobytes():
                viol.append(_viol("asanyarray", i, st, f"{type(q).__name__}"))
            continue
        elif k == "element":
            check_array(vector, L, i, st, viol, case)
            continue
        elif k == "objarray":
            # the array form of a vector object is the equivalent one-element array
            if a.size == 0:
                continue
            idx = tuple(r[q % 4] % s for q, s in enumerate(a.shape))
            try:
                el = a[idx if len(idx) != 1 else idx[0]]
                expect = {g: t[idx][g] for g in gn[:Ldim]}
                if r[3] % 3 == 0:
                    # an object whose coordinates have mixed numeric types (a Python float next to array scalars)
                    g0 = gn[r[2] % Ldim]
                    setattr(el, g0, 0.1)
                    expect[g0] = 0.1
                arrs = [("__array__", el.__array__()), ("asanyarray", numpy.asanyarray(el))]
                plain = numpy.asarray(el)
            except Exception as e:
                viol.append(_viol("object-array-form-raised", i, st, f"{type(e).__name__}: {e}"))
                continue
            wcls = getattr(vector, f"{'Momentum' if L.mom else 'Vector'}Numpy{Ldim}D")
            for nm, oa in arrs:
                rdt = numpy.ndarray.dtype.__get__(oa)
                if type(oa) is not wcls or _generic(rdt.names) != tuple(gn[:Ldim]):
                    viol.append(_viol("object-array-form-class", i, dict(st, what=nm), f"{type(oa).__name__}{rdt.names} expected {wcls.__name__}{tuple(gn)}"))
                    continue
                for g, fld in zip(gn[:Ldim], rdt.names):
                    got = numpy.asarray(oa.view(numpy.ndarray)[fld]).ravel()[0]
                    # the array form of an object is float64 by design: equal as float64 (a Python float next to
                    # float32 scalars must still arrive unrounded, an integer beyond 2**53 cannot)
                    if float(got) != float(_py(expect[g])) and not (got != got):
                        viol.append(_viol("object-array-form-values", i, dict(st, what=nm), f"{g}: {got!r} expected {expect[g]!r}"))
            if type(plain) is not numpy.ndarray or _generic(plain.dtype.names) != tuple(gn[:Ldim]):
                viol.append(_viol("object-asarray", i, st, f"{type(plain).__name__} {plain.dtype}"))
            continue
        if new is not None:
            live.append(new)
            stats["arrays"] += 1
        # every live array against its twin; aliasing must agree with the plain-numpy model
        for L2 in live:
            check_array(vector, L2, i, st, viol, case, deep=(L2 is new or L2 is L))
        for x in range(len(live)):
            for y in range(x + 1, len(live)):
                sa = numpy.shares_memory(live[x].arr.view(numpy.ndarray), live[y].arr.view(numpy.ndarray))
                stw = numpy.shares_memory(live[x].twin, live[y].twin)
                stats["alias_pairs"] += 1
                if sa != stw:
                    viol.append(_viol("aliasing", i, st, f"{live[x].origin} vs {live[y].origin}: arrays share={sa}, model share={stw}"))
        if len(viol) > 20:
            break
    return _done(viol, stats, case)


def _fresh_restart(arr):
    """Only the pickle bytes cross into a fresh interpreter with nothing imported; it unpickles,
    re-pickles and hands the bytes back (class, dtype, instance dict and values must survive)."""
    import pickle
    import subprocess
    import sys

    from . import env

    data = pickle.dumps(arr, protocol=4)
    code = ("import sys,pickle; sys.path.insert(0, %r); d=sys.stdin.buffer.read(); o=pickle.loads(d); "
            "import numpy; assert type(o).__module__.startswith('vector'); _ = o[()] if o.ndim == 0 else (o[0] if o.shape[0] else None); "
            "sys.stdout.buffer.write(pickle.dumps((o, sorted(getattr(o, '__dict__', {}))), protocol=4))") % env.SRC
    p = subprocess.run([sys.executable, "-c", code], input=data, capture_output=True, timeout=120)
    if p.returncode != 0:
        raise RuntimeError("fresh interpreter failed: " + p.stderr.decode()[-400:])
    o, keys = pickle.loads(p.stdout)
    return o


def _done(viol, stats, case):
    stats["ops"] = stats["steps"]
    stats["cells"] = sorted(stats.pop("states"))
    stats["nontrivial"] = stats["writes"] > 0 or stats["restarts"] > 0 or stats["arrays"] >= 2
    stats["mut_ops"] = stats["writes"]
    stats["extra"] = {"arrays_derived": stats.pop("arrays"), "alias_pairs_checked": stats.pop("alias_pairs"),
                      "writes_through_aliases": stats["writes"], "pickle_restarts": stats.pop("restarts"),
                      "fresh_interpreter_restarts": stats.pop("fresh", 0)}
    stats.pop("writes")
    return {"viol": viol, "stats": stats}
