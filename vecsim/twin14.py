"""C14 - momentum names are exact synonyms: twin histories in lock-step.

The same step list is applied to a generic vector through geometric names and to
its momentum twin through a seeded choice of synonym for every step (construction,
assignment, indexing, conversion, operations).  After every step the twins must hold
identical numbers, every synonym getter must return exactly what its geometric getter
returns on the *same* object, and either both steps raise or neither does.
The synonym table is evaluated at every state the history reaches (stateless part,
disclosed in MANIFEST level_note)."""

from __future__ import annotations

import random
import re

from . import coords as C
from . import faults, snapshot
from . import gen as G

BACKENDS = ("obj", "np", "ak", "akraw", "sym")


def _kwval(rng, g):
    """Value for an imputed coordinate: zero (massless, on-axis) is a first-class case."""
    r = rng.random()
    if r < 0.12:
        return 0.0
    if r < 0.18:
        return 0
    return C.value(rng, g)


def _spell(rng, g):
    return rng.choice(C.SYN[g]) if g in C.SYN else g


def gen_case(seed, tier="quick"):
    rng = random.Random(seed)
    be = rng.choice(("obj", "obj", "np", "np", "ak", "ak", "akraw", "sym"))
    as_record = be in ("ak", "akraw") and rng.random() < 0.3
    sys_ = C.SYSTEMS[rng.randrange(20)]
    dim = C.dim_of(sys_)
    gnames = C.names_of(sys_)
    mnames = C.spell(rng, sys_, True, all_mom=rng.random() < 0.5)
    n = 1 if be in ("obj", "sym") else rng.choice((1, 2, 3, 4))
    shape = [n]
    if be == "np" and rng.random() < 0.3:
        shape = rng.choice(([2, 2], [3, 1], [2, 1, 2]))
        n = 1
        for s in shape:
            n *= s
    if be == "ak" and rng.random() < 0.4 and not as_record:
        shape = ["jag"]
        n = 3
    elif be == "ak" and rng.random() < 0.25 and not as_record:
        shape = ["opt"]
        n = 3
    hz = rng.random() < 0.15
    cols = {g: [C.value(rng, g, hz and rng.random() < 0.2) for _ in range(n)] for g in gnames}
    nsteps = rng.choice((1, 2, 4, 6, 10)) if tier == "quick" else rng.choice((2, 4, 8, 16, 24))
    steps = []
    allg = {2: ["x", "y", "rho", "phi"], 3: ["z", "theta", "eta"], 4: ["t", "tau"]}
    kinds = ["table", "get", "to", "op", "index", "close"]
    if be in ("obj", "sym"):
        kinds += ["set", "set", "iop"]
    if be == "np":
        kinds += ["setcol", "setrows", "setmask", "getrow", "reshape"]
    if be in ("ak", "akraw"):
        kinds += ["field"]
    for _ in range(nsteps):
        k = rng.choice(kinds)
        if k == "set":
            g = rng.choice([x for d in range(2, dim + 1) for x in allg[d]])
            v = C.value(rng, g)
            steps.append({"s": "set", "g": g, "m": _spell(rng, g), "val": v})
        elif k == "iop":
            steps.append({"s": "iop", "op": rng.choice(("iadd", "isub", "imul", "itruediv")), "f": rng.choice((2.0, 0.5, -1.5)),
                          "w": {g: C.value(rng, g) for g in gnames}, "wm": C.spell(rng, sys_, True)})
        elif k == "get":
            pool = [(m, g) for m, g in C.PROP_SYN.items() if C.PROP_SYN_MINDIM.get(m, 4 if g in ("t", "t2", "tau", "tau2") else 2) <= dim]
            m, g = rng.choice(pool)
            steps.append({"s": "get", "g": g, "m": m})
        elif k == "to":
            cands = [(m, g) for m, g in C.TO_SYN.items()]
            m, g = rng.choice(cands)
            st = {"s": "to", "g": g, "m": m, "kwg": {}, "kwm": {}}
            # impute the coordinates the source does not have, by keyword, in both spellings
            lon_g = next((n for n in ("theta", "eta", "z") if n in g[5:]), None)
            lon_m = next((n for n in ("theta", "eta", "pz") if n in m[5:]), None)
            if dim < 3 and lon_g and rng.random() < 0.8:
                v = _kwval(rng, lon_g)
                st["kwg"][lon_g] = v
                st["kwm"][lon_m] = v
            tmp_g = "tau" if g.endswith("tau") else ("t" if g.endswith("t") and lon_g else None)
            tmp_m = "mass" if m.endswith("mass") else ("energy" if m.endswith("energy") else None)
            if dim < 4 and tmp_g and tmp_m and rng.random() < 0.8:
                v = _kwval(rng, tmp_g)
                st["kwg"][tmp_g] = v
                st["kwm"][tmp_m] = v
            steps.append(st)
        elif k == "reshape":
            steps.append({"s": "reshape", "how": rng.choice(("flat", "col", "T", "rev"))})
        elif k == "close":
            # closeness predicates against a *slightly* different partner (tolerance formulas matter there)
            st_c = {"s": "op", "name": rng.choice(("close:isclose", "close:allclose", "close:np.isclose", "close:np.allclose")),
                    "eps": rng.choice((1e-9, 3e-6, 8e-6, 1.2e-5, 3e-5, 1e-3)), "kw": {}}
            if rng.random() < 0.4:
                st_c["kw"] = {"rtol": rng.choice((1e-7, 1e-5, 1e-3)), "atol": rng.choice((0.0, 1e-8, 1e-4))}
            steps.append(st_c)
        elif k == "op":
            name = rng.choice(("unit", "add", "subtract", "scale", "dot", "deltaphi", "rotateZ", "equal", "isclose", "neg2D", "to_Vector2D", "to_Vector3D", "to_Vector4D",
                               "py:abs", "py:neg", "py:pow", "py:mul", "py:truediv", "py:eq", "np:absolute", "np:square", "np:sqrt", "np:cbrt", "np:power", "np:negative",
                               "np:add", "np:subtract", "np:matmul", "np:sum", "np:count_nonzero", "np:isclose", "np:allclose", "ak:sum", "ak:count",
                               "mixed:add", "mixed:subtract", "mixed:dot", "mixed:deltaphi", "mixed:isclose",
                               "xflavor:add", "xflavor:subtract", "xflavor:dot", "xflavor:isclose", "xflavor:equal", "xflavor:deltaphi", "xflavor:like"))
            if name.startswith("xflavor:"):
                steps.append({"s": "op", "name": name})
                continue
            if rng.random() < 0.12:
                # closeness predicates against a *slightly* different partner (tolerance formulas matter there)
                st_c = {"s": "op", "name": rng.choice(("close:isclose", "close:allclose", "close:np.isclose", "close:np.allclose")),
                        "eps": rng.choice((1e-9, 3e-6, 8e-6, 1.2e-5, 3e-5, 1e-3)), "kw": {}}
                if rng.random() < 0.4:
                    st_c["kw"] = {"rtol": rng.choice((1e-7, 1e-5, 1e-3)), "atol": rng.choice((0.0, 1e-8, 1e-4))}
                steps.append(st_c)
                continue
            if name.startswith("mixed:"):
                st_w = {g: C.value(rng, g) for g in gnames}
                steps.append({"s": "op", "name": name, "w": st_w, "wm": C.spell(rng, sys_, True)})
                continue
            if name in ("np:sum", "ak:sum", "ak:count", "np:count_nonzero"):
                steps.append({"s": "op", "name": name, "axis": rng.choice((None, 0, -1)), "keepdims": rng.random() < 0.3})
                continue
            st = {"s": "op", "name": name}
            if name in ("scale", "rotateZ", "py:mul", "py:truediv"):
                st["arg"] = round(rng.uniform(-2, 2), 3) or 1.5
            if name in ("py:pow", "np:power"):
                st["arg"] = rng.choice((2, 3, 0.5, 1.5))
            if name in ("to_Vector3D", "to_Vector4D"):
                st["kwg"] = {}
                st["kwm"] = {}
                if dim < 3:
                    g = rng.choice(("z", "theta", "eta"))
                    v = _kwval(rng, g)
                    st["kwg"][g] = v
                    st["kwm"][_spell(rng, g)] = v
                if dim < 4 and name == "to_Vector4D":
                    g = rng.choice(("t", "tau"))
                    v = _kwval(rng, g)
                    st["kwg"][g] = v
                    st["kwm"][_spell(rng, g)] = v
            steps.append(st)
        elif k == "index":
            g = rng.choice(gnames)
            steps.append({"s": "index", "g": g, "m": _spell(rng, g)})
        elif k == "getrow":
            steps.append({"s": "getrow", "i": rng.randrange(shape[0]) if len(shape) == 1 else [rng.randrange(s) for s in shape]})
        elif k == "setcol":
            g = rng.choice(gnames)
            steps.append({"s": "setcol", "g": g, "m": _spell(rng, g), "val": [C.value(rng, g) for _ in range(n)]})
        elif k in ("setrows", "setmask"):
            if len(shape) != 1:
                continue
            if k == "setrows":
                a = rng.randrange(shape[0])
                b = rng.randrange(a, shape[0]) + 1
                where = {"slice": [a, b]}
                cnt = b - a
            else:
                mask = [bool(rng.getrandbits(1)) for _ in range(shape[0])]
                where = {"mask": mask}
                cnt = sum(mask)
            rows = {g: [C.value(rng, g) for _ in range(cnt)] for g in gnames}
            perm = list(range(len(gnames)))
            if rng.random() < 0.5:
                rng.shuffle(perm)  # the right-hand side may list its fields in any order: assignment is by name
            steps.append({"s": "setrows", "where": where, "rows": rows, "m": C.spell(rng, sys_, True, all_mom=rng.random() < 0.5), "perm": perm})
        elif k == "field":
            g = rng.choice(gnames)
            steps.append({"s": "field", "g": g, "m": _spell(rng, g)})
        else:
            steps.append({"s": "table"})
    steps.append({"s": "table"})
    flts = []
    if rng.random() < 0.25 and be in ("obj", "np"):
        cand = [i for i, s in enumerate(steps) if s["s"] in ("get", "to", "op", "iop", "table")]
        if cand:
            flts.append({"i": rng.choice(cand), "seam": "lib", "n": rng.choice((1, 2, 3)), "exc": "MemoryError"})
    case = {"kind": "twin14", "seed": seed, "be": be, "sys": list(sys_), "gnames": gnames, "mnames": mnames, "shape": shape,
            "cols": cols, "steps": steps, "faults": flts, "how": rng.choice(("a", "b", "c")), "record": as_record,
            "akorder": rng.sample(range(len(gnames)), len(gnames)) if rng.random() < 0.5 else list(range(len(gnames)))}
    ry = random.Random(seed * 104729 + 11)    # its own stream too
    if be in ("obj", "sym") and ry.random() < (0.6 if be == "sym" else 0.3):
        # relatives: a second pair of twins obtained *from* the first (a copy, a rotation that keeps the other coordinate
        # groups, a vector built from the same coordinate objects). Later assignments and in-place operators go to either
        # pair; all pairs are compared after every step - assigning through a synonym must be indistinguishable from
        # assigning through the geometric name in everything that can be observed afterwards, not only on the target.
        hows = ["copy", "rotateZ", "ctor", "neg", "deepcopy"] + (["rotateX"] if dim >= 3 else [])
        at = ry.randrange(len(steps))
        steps.insert(at, {"s": "derive", "how": ry.choice(hows), "a": round(ry.uniform(-3, 3), 3)})
        for f_ in flts:
            if f_["i"] >= at:
                f_["i"] += 1
        for st_ in steps[at + 1:]:
            if st_["s"] in ("set", "iop") and ry.random() < 0.5:
                st_["tgt"] = 0
        tail = []
        for _ in range(ry.choice((1, 2, 3))):
            g_ = ry.choice([x for d in range(2, dim + 1) for x in allg[d]])
            if ry.random() < 0.6:
                g_ = ry.choice(gnames)          # the stored coordinate itself: the case an in-place shortcut would take
            st_ = {"s": "set", "g": g_, "m": _spell(ry, g_), "val": C.value(ry, g_)}
            if ry.random() < 0.6:
                st_["tgt"] = 0
            tail.append(st_)
        for f_ in flts:
            if f_["i"] >= len(steps) - 1:
                f_["i"] += len(tail)
        steps[-1:-1] = tail
    rx = random.Random(seed * 7919 + 13)     # its own stream: the cases of earlier seeds stay what they were
    if be == "akraw" and rx.random() < 0.5:
        # raw records may carry extra fields, also ones named like a coordinate the vector does not use (an `eta`
        # column next to z, a `tau` next to t, rho/phi next to x/y, a `z` on a 2D vector): the same in both twins
        lower = {"x": ["rho", "phi"], "z": ["theta", "eta"], "theta": ["eta"], "t": ["tau"]}
        cand = ["charge"] + [e for g in gnames for e in lower.get(g, [])]
        if dim < 3:
            cand += ["z", "eta"]
        if dim < 4:
            cand += ["t", "tau"]
        picked = [e for e in dict.fromkeys(cand) if rx.random() < 0.5] or ["charge"]
        case["akextra"] = {e: [C.value(rx, e if e != "charge" else "x") for _ in range(n)] for e in picked}
    return case


# --------------------------------------------------------------------------- construction

def _build(vector, case, names, mom):
    import awkward as ak
    import numpy
    import sympy

    be = case["be"]
    cols = case["cols"]
    gn = case["gnames"]
    shape = case["shape"]
    how = case["how"]
    if be == "obj":
        kw = {nm: cols[g][0] for nm, g in zip(names, gn)}
        if how == "a":
            return vector.obj(**kw)
        cls = getattr(vector, f"{'Momentum' if mom else 'Vector'}Object{len(gn)}D")
        return cls(**kw)
    if be == "sym":
        kw = {nm: sympy.Symbol(g, real=True) for nm, g in zip(names, gn)}
        cls = getattr(vector, f"{'Momentum' if mom else 'Vector'}Sympy{len(gn)}D")
        return cls(**kw)
    if be == "np":
        arrs = {nm: numpy.array(cols[g], dtype="f8").reshape(shape) for nm, g in zip(names, gn)}
        if how == "a" or len(shape) != 1:
            return vector.array(arrs)
        rows = [tuple(cols[g][i] for g in gn) for i in range(shape[0])]
        dt = [(nm, "f8") for nm in names]
        if how == "b":
            return vector.array(rows, dtype=dt)
        cls = getattr(vector, f"{'Momentum' if mom else 'Vector'}Numpy{len(gn)}D")
        return cls(rows, dtype=dt)
    n = len(cols[gn[0]])
    ko = case.get("akorder") or list(range(len(gn)))     # records may list their fields in any order
    recs = [{names[q]: cols[gn[q]][i] for q in ko} for i in range(n)]
    for e, vals in (case.get("akextra") or {}).items():
        for i in range(n):
            recs[i][e] = vals[i]
    data = [recs[:2], [], recs[2:]] if shape == ["jag"] else ([recs[0], None, recs[2]] if shape == ["opt"] else recs)
    if be == "ak":
        if how == "a" or shape in (["jag"], ["opt"]):
            return vector.Array(data)
        if how == "b":
            return vector.zip({names[q]: [cols[gn[q]][i] for i in range(n)] for q in ko})
        return vector.Array(ak.Array(data))
    # akraw: plain ak.Array named Vector/MomentumND resolved through the (registered) global behavior
    return ak.Array(data, with_name=f"{'Momentum' if mom else 'Vector'}{len(gn)}D")


# --------------------------------------------------------------------------- comparison

_CLS = re.compile(r"Momentum(Object|Numpy|Array|Record|Sympy)?([234]D)")
_FLD = re.compile(r"\b(px|py|pt|pz|E|e|energy|M|m|mass): ")
_QFLD = re.compile(r"'(px|py|pt|pz|E|e|energy|M|m|mass)'")


def _norm(c):
    """Canonical form with the flavor removed from class names (the numbers must be identical)."""
    if isinstance(c, str):
        c = _CLS.sub(lambda m: "Vector" + (m.group(1) or "") + m.group(2), c)
        c = _FLD.sub(lambda m: C.GENERIC_OF[m.group(1)] + ": ", c)
        c = _QFLD.sub(lambda m: "'" + C.GENERIC_OF[m.group(1)] + "'", c)
        return c
    if isinstance(c, list):
        if len(c) == 2 and isinstance(c[0], str) and isinstance(c[1], str):
            # a scalar: the number, not the Python type carrying it
            try:
                if c[0] in ("float", "SimFloat"):
                    return ["num", float.fromhex(c[1]).hex() if c[1] != "nan" else "nan"]
                if c[0] == "int":
                    return ["num", float(int(c[1])).hex()]
                if c[0] in ("np.float64", "np.float32", "np.int64", "np.int32"):
                    import numpy as _np

                    v = _np.frombuffer(bytes.fromhex(c[1]), dtype=c[0][3:])[0]
                    return ["num", "nan" if v != v else float(v).hex()]
            except Exception:
                pass
        return [_norm(x) for x in c]
    if isinstance(c, tuple):
        return tuple(_norm(x) for x in c)
    if isinstance(c, dict):
        return {C.GENERIC_OF.get(k, k): _norm(v) for k, v in c.items()}
    return c


def _derive(v, how, a):
    import copy

    if how == "copy":
        return copy.copy(v)
    if how == "deepcopy":
        return copy.deepcopy(v)
    if how == "rotateZ":
        return v.rotateZ(a)
    if how == "rotateX":
        return v.rotateX(a)
    if how == "neg":
        return -v
    if how == "ctor":
        kw = {}
        for g in ("azimuthal", "longitudinal", "temporal"):
            try:
                kw[g] = object.__getattribute__(v, g)
            except AttributeError:
                break
        return type(v)(**kw)
    raise ValueError(how)


def _same(a, b):
    return _norm(snapshot.canon(a)) == _norm(snapshot.canon(b))


def _exact(a, b):
    return snapshot.canon(a) == snapshot.canon(b)


def _call(fn):
    try:
        return ("ok", fn())
    except Exception as e:
        return ("exc", e)


def _viol(aspect, i, st, detail, be):
    return {"prop": "C14", "inv": "I5", "aspect": aspect, "site": f"S:{i}:{st['s']}:{st.get('m') or st.get('name') or st.get('op') or ''}",
            "pass": be, "detail": str(detail)[:500]}


def _both(i, st, rg, rm, viol, be, what, exact_types=False):
    """Either both raise (same exception type) or neither; values must carry the same numbers."""
    if rg[0] != rm[0]:
        viol.append(_viol("one-raises-other-not", i, st, f"{what}: generic {rg[0]} {_short(rg[1])} | momentum {rm[0]} {_short(rm[1])}", be))
        return False
    if rg[0] == "exc":
        if type(rg[1]) is not type(rm[1]) and not getattr(rg[1], "vecsim_injected", False):
            viol.append(_viol("different-exception", i, st, f"{what}: {type(rg[1]).__name__} vs {type(rm[1]).__name__}", be))
        return False
    if not _same(rg[1], rm[1]):
        viol.append(_viol("flavor-changes-number", i, st, f"{what}: generic {_short(rg[1])} | momentum {_short(rm[1])}", be))
        return False
    return True


def _short(x):
    if isinstance(x, BaseException):
        return f"{type(x).__name__}: {str(x)[:100]}"
    try:
        return repr(snapshot.canon(x))[:200]
    except Exception:
        return type(x).__name__


def _table(i, st, Gv, Mv, dim, viol, be, stats):
    """The whole synonym table at this state."""
    for m, g in C.PROP_SYN.items():
        need = C.PROP_SYN_MINDIM.get(m, 4 if g in ("t", "t2", "tau", "tau2") else 2)
        if need > dim:
            continue
        rm = _call(lambda: getattr(Mv, m))
        rg = _call(lambda: getattr(Mv, g))
        rgg = _call(lambda: getattr(Gv, g))
        stats["table_cells"] += 1
        if rm[0] != rg[0] or (rm[0] == "ok" and not _exact(rm[1], rg[1])):
            viol.append(_viol("synonym-differs-from-geometric", i, {"s": "table", "m": m}, f"{m}: {_short(rm[1])} vs {g}: {_short(rg[1])}", be))
        if rg[0] != rgg[0] or (rg[0] == "ok" and not _same(rg[1], rgg[1])):
            viol.append(_viol("flavor-changes-number", i, {"s": "table", "m": g}, f"{g}: momentum {_short(rg[1])} vs generic {_short(rgg[1])}", be))
    if dim == 4:
        for grp in C.ET_GROUPS:
            vals = [_call(lambda n=n: getattr(Mv, n)) for n in grp]
            stats["table_cells"] += 1
            for n, r in zip(grp[1:], vals[1:]):
                if r[0] != vals[0][0] or (r[0] == "ok" and not _exact(r[1], vals[0][1])):
                    viol.append(_viol("synonym-group-differs", i, {"s": "table", "m": n}, f"{grp[0]}: {_short(vals[0][1])} vs {n}: {_short(r[1])}", be))
    for m, g in C.TO_SYN.items():
        rm = _call(lambda: getattr(Mv, m)())
        rg = _call(lambda: getattr(Mv, g)())
        stats["table_cells"] += 1
        if rm[0] != rg[0] or (rm[0] == "ok" and not _exact(rm[1], rg[1])):
            viol.append(_viol("to-synonym-differs", i, {"s": "table", "m": m}, f"{m}: {_short(rm[1])} vs {g}: {_short(rg[1])}", be))


def run_case(case, vector):
    import operator

    import awkward as ak
    import numpy

    be = case["be"]
    if be == "akraw":
        vector.register_awkward()
    if any(f["seam"] == "lib" for f in case.get("faults", ())):
        faults.install_simlib(vector)
    viol = []
    stats = {"steps": 0, "raised": 0, "natural_exc": {}, "faults_planned": len(case.get("faults", ())), "faults_fired": {"lib": 0, "flt": 0, "alloc": 0},
             "table_cells": 0, "states": set()}
    gn = case["gnames"]
    dim = len(gn)
    rG = _call(lambda: _build(vector, case, gn, False))
    rM = _call(lambda: _build(vector, case, case["mnames"], True))
    st0 = {"s": "construct", "m": ",".join(case["mnames"])}
    if not _both(-1, st0, rG, rM, viol, be, "construction"):
        return _done(viol, stats, case)
    Gv, Mv = rG[1], rM[1]
    if case.get("record"):
        Gv, Mv = Gv[0], Mv[0]   # a vector *record* behaves like the equivalent vector
    plan = {}
    for f in case.get("faults", ()):
        plan.setdefault(f["i"], {})[f["seam"]] = (f["n"], f["exc"])

    def twin_call(i, fg, fm):
        """Run the two halves under the same fault plan (the fault fires at the same logical place)."""
        out = []
        for fn in (fg, fm):
            ctx = faults.OpCtx(plan.get(i))
            faults.set_ctx(ctx)
            try:
                out.append(_call(fn))
            finally:
                faults.set_ctx(None)
            for fk in ctx.fired:
                stats["faults_fired"][fk[0]] += 1
                if fk[3] == "SimCancel":
                    stats["faults_fired"]["cancel"] = stats["faults_fired"].get("cancel", 0) + 1
                if fk[3] == "Reenter":
                    stats["faults_fired"]["reenter"] = stats["faults_fired"].get("reenter", 0) + 1
        for r in out:
            if r[0] == "exc":
                stats["raised"] += 1
                if not getattr(r[1], "vecsim_injected", False):
                    n = type(r[1]).__name__
                    stats["natural_exc"][n] = stats["natural_exc"].get(n, 0) + 1
        return out

    rels = []    # pairs of twins derived from (Gv, Mv)
    for i, st in enumerate(case["steps"]):
        stats["steps"] += 1
        s = st["s"]
        Tg, Tm = Gv, Mv
        if st.get("tgt") is not None:
            if st["tgt"] >= len(rels):
                continue
            Tg, Tm = rels[st["tgt"]]
        stats["states"].add(f"{be}|{'.'.join(case['sys'][q] or '-' for q in range(3))}|{s}:{st.get('m') or st.get('name') or ''}")
        if s == "table":
            if i in plan:
                continue
            _table(i, st, Gv, Mv, dim, viol, be, stats)
        elif s == "get":
            g, m = st["g"], st["m"]
            rg, rm = twin_call(i, lambda: getattr(Gv, g), lambda: getattr(Mv, m))
            if _both(i, st, rg, rm, viol, be, f"{g} vs {m}") and i not in plan:
                rmg = _call(lambda: getattr(Mv, g))
                if rmg[0] != "ok" or not _exact(rmg[1], rm[1]):
                    viol.append(_viol("synonym-differs-from-geometric", i, st, f"{m}: {_short(rm[1])} vs {g}: {_short(rmg[1])}", be))
        elif s == "to":
            g, m = st["g"], st["m"]
            kwg, kwm = st.get("kwg", {}), st.get("kwm", {})
            rg, rm = twin_call(i, lambda: getattr(Gv, g)(**kwg), lambda: getattr(Mv, m)(**kwm))
            if _both(i, st, rg, rm, viol, be, f"{g}({kwg}) vs {m}({kwm})") and i not in plan:
                rmg = _call(lambda: getattr(Mv, g)(**kwg))
                if rmg[0] != "ok" or not _exact(rmg[1], rm[1]):
                    viol.append(_viol("to-synonym-differs", i, st, f"{m}({kwm}): {_short(rm[1])} vs {g}({kwg}): {_short(rmg[1])}", be))
        elif s == "op":
            name = st["name"]
            if ":" in name:
                import operator as _op

                kind_, fn_ = name.split(":", 1)
                if kind_ == "close":
                    if fn_.startswith("np.") and be not in ("np", "obj"):
                        continue   # vector does not overload numpy.isclose/allclose for Awkward or SymPy: not its behaviour
                    g2 = _call(lambda: Gv.scale(1.0 + st["eps"]))
                    m2 = _call(lambda: Mv.scale(1.0 + st["eps"]))
                    if g2[0] == "ok" and m2[0] == "ok":
                        if fn_.startswith("np."):
                            fcl = getattr(numpy, fn_[3:])
                            rg, rm = twin_call(i, lambda: fcl(Gv, g2[1], **st["kw"]), lambda: fcl(Mv, m2[1], **st["kw"]))
                        else:
                            rg, rm = twin_call(i, lambda: getattr(Gv, fn_)(g2[1], **st["kw"]), lambda: getattr(Mv, fn_)(m2[1], **st["kw"]))
                        _both(i, st, rg, rm, viol, be, f"{name} eps={st['eps']} {st['kw']}")
                    continue
                if kind_ == "xflavor":
                    # the *other* operand has the other flavor: numbers must not depend on which side is the momentum one
                    rg, rm = twin_call(i, lambda: getattr(Gv, fn_)(Mv), lambda: getattr(Mv, fn_)(Gv))
                    if rg[0] == rm[0] == "ok" and fn_ in ("subtract",):
                        pass  # a - b with the flavors exchanged is the same number on both sides (a and b hold equal coordinates)
                    _both(i, st, rg, rm, viol, be, name)
                    rgg = _call(lambda: getattr(Gv, fn_)(Gv))
                    if rg[0] == "ok" and rgg[0] == "ok" and not _same(rg[1], rgg[1]):
                        viol.append(_viol("flavor-changes-number", i, st, f"{name}: generic.{fn_}(momentum) {_short(rg[1])} vs generic.{fn_}(generic) {_short(rgg[1])}", be))
                    continue
                if kind_ == "mixed":
                    # the partner is a single vector *object* (another backend) built in both spellings
                    wg = vector.obj(**{g: st["w"][g] for g in gn})
                    wm = vector.obj(**{nm: st["w"][g] for nm, g in zip(st["wm"], gn)})
                    rg, rm = twin_call(i, lambda: getattr(Gv, fn_)(wg), lambda: getattr(Mv, fn_)(wm))
                    _both(i, st, rg, rm, viol, be, name)
                    rg2, rm2 = twin_call(i, lambda: getattr(wg, fn_)(Gv), lambda: getattr(wm, fn_)(Mv))
                    _both(i, st, rg2, rm2, viol, be, name + " (object first)")
                    continue
                if fn_ in ("sum", "count", "count_nonzero") and "axis" in st:
                    mod_ = ak if kind_ == "ak" else numpy
                    kw_ = {"axis": st["axis"]}
                    if st.get("keepdims") and fn_ == "sum":
                        kw_["keepdims"] = True
                    rg, rm = twin_call(i, lambda: getattr(mod_, fn_)(Gv, **kw_), lambda: getattr(mod_, fn_)(Mv, **kw_))
                    _both(i, st, rg, rm, viol, be, name)
                    continue
                f_ = getattr(_op, fn_) if kind_ == "py" else getattr(numpy, fn_)
                if fn_ in ("abs", "neg", "absolute", "square", "sqrt", "cbrt", "negative"):
                    fg = lambda: f_(Gv)  # noqa: E731
                    fm = lambda: f_(Mv)  # noqa: E731
                elif fn_ in ("pow", "power", "mul", "truediv"):
                    fg = lambda: f_(Gv, st["arg"])  # noqa: E731
                    fm = lambda: f_(Mv, st["arg"])  # noqa: E731
                else:
                    fg = lambda: f_(Gv, Gv)  # noqa: E731
                    fm = lambda: f_(Mv, Mv)  # noqa: E731
            elif name in ("add", "subtract", "dot", "deltaphi", "equal", "isclose"):
                fg = lambda: getattr(Gv, name)(Gv)  # noqa: E731
                fm = lambda: getattr(Mv, name)(Mv)  # noqa: E731
            elif name in ("scale", "rotateZ"):
                fg = lambda: getattr(Gv, name)(st["arg"])  # noqa: E731
                fm = lambda: getattr(Mv, name)(st["arg"])  # noqa: E731
            elif name in ("to_Vector3D", "to_Vector4D"):
                fg = lambda: getattr(Gv, name)(**st["kwg"])  # noqa: E731
                fm = lambda: getattr(Mv, name)(**st["kwm"])  # noqa: E731
            elif name == "neg2D":   # a property
                fg = lambda: getattr(Gv, name)  # noqa: E731
                fm = lambda: getattr(Mv, name)  # noqa: E731
            else:
                fg = lambda: getattr(Gv, name)()  # noqa: E731
                fm = lambda: getattr(Mv, name)()  # noqa: E731
            rg, rm = twin_call(i, fg, fm)
            _both(i, st, rg, rm, viol, be, name)
        elif s == "derive":
            fd = lambda v_: _derive(v_, st["how"], st["a"])  # noqa: E731
            rg, rm = twin_call(i, lambda: fd(Gv), lambda: fd(Mv))
            if _both(i, st, rg, rm, viol, be, "derive:" + st["how"]) and rg[1] is not Gv and rm[1] is not Mv:
                rels.append((rg[1], rm[1]))
        elif s == "set":
            g, m, val = st["g"], st["m"], st["val"]
            if be == "sym":
                import sympy

                val = sympy.Symbol(g + "n" + str(i), real=True)
            rg, rm = twin_call(i, lambda: setattr(Tg, g, val), lambda: setattr(Tm, m, val))
            if rg[0] != rm[0]:
                viol.append(_viol("one-raises-other-not", i, st, f"set {g} vs {m}: {_short(rg[1])} | {_short(rm[1])}", be))
            rb = _call(lambda: getattr(Tm, m))
            if rm[0] == "ok" and (rb[0] != "ok" or not _exact(rb[1], val)):
                viol.append(_viol("assigned-synonym-reads-back-differently", i, st, f"{m}={val!r} reads {_short(rb[1])}", be))
        elif s == "iop":
            op = getattr(operator, st["op"])
            if st["op"] in ("iadd", "isub"):
                wg = vector.obj(**{g: st["w"][g] for g in gn})
                wm = vector.obj(**{nm: st["w"][g] for nm, g in zip(st["wm"], gn)})
                if be == "sym":
                    import sympy

                    wg = _build(vector, case, gn, False)
                    wm = _build(vector, case, case["mnames"], True)
                rg, rm = twin_call(i, lambda: op(Tg, wg), lambda: op(Tm, wm))
            else:
                rg, rm = twin_call(i, lambda: op(Tg, st["f"]), lambda: op(Tm, st["f"]))
            if rg[0] != rm[0]:
                viol.append(_viol("one-raises-other-not", i, st, f"{st['op']}: {_short(rg[1])} | {_short(rm[1])}", be))
        elif s == "index":
            g, m = st["g"], st["m"]
            if be in ("obj", "sym"):
                continue
            if be == "np":
                rg, rm = twin_call(i, lambda: Gv[g], lambda: Mv[m])
                if _both(i, st, rg, rm, viol, be, f"[{g!r}] vs [{m!r}]"):
                    rmg = _call(lambda: Mv[g])
                    if rmg[0] != "ok" or not _exact(rmg[1], rm[1]):
                        viol.append(_viol("synonym-index-differs", i, st, f"[{m!r}] {_short(rm[1])} vs [{g!r}] {_short(rmg[1])}", be))
                    elif not numpy.shares_memory(rm[1], Mv.view(numpy.ndarray)):
                        viol.append(_viol("synonym-index-is-a-copy", i, st, f"[{m!r}] does not alias the array", be))
            else:
                rg, rm = twin_call(i, lambda: getattr(Gv, g), lambda: getattr(Mv, m))
                _both(i, st, rg, rm, viol, be, f".{g} vs .{m}")
        elif s == "field":
            g, m = st["g"], st["m"]
            rg = _call(lambda: getattr(Gv, g))
            rm = _call(lambda: getattr(Mv, m))
            rmg = _call(lambda: getattr(Mv, g))
            if _both(i, st, rg, rm, viol, be, f".{g} vs .{m}"):
                if rmg[0] != "ok" or not _exact(rmg[1], rm[1]):
                    viol.append(_viol("synonym-differs-from-geometric", i, st, f".{m} {_short(rm[1])} vs .{g} {_short(rmg[1])}", be))
        elif s == "reshape":
            # later steps (name / synonym indexing, assignment) then work on a reshaped / transposed / reversed view
            f = {"flat": lambda x: x.reshape(-1), "col": lambda x: x.reshape(-1, 1), "T": lambda x: x.T, "rev": lambda x: x[::-1]}[st["how"]]
            rg, rm = twin_call(i, lambda: f(Gv), lambda: f(Mv))
            if _both(i, st, rg, rm, viol, be, "reshape:" + st["how"]):
                Gv, Mv = rg[1], rm[1]
                case["shape"] = list(Gv.shape)
        elif s == "getrow":
            idx = tuple(st["i"]) if isinstance(st["i"], list) else st["i"]
            rg, rm = twin_call(i, lambda: Gv[idx], lambda: Mv[idx])
            _both(i, st, rg, rm, viol, be, f"[{idx}]")
        elif s == "setcol":
            g, m = st["g"], st["m"]
            val = numpy.array(st["val"], dtype="f8").reshape(case["shape"])
            rg, rm = twin_call(i, lambda: Gv.__setitem__(g, val), lambda: Mv.__setitem__(m, val))
            if rg[0] != rm[0]:
                viol.append(_viol("one-raises-other-not", i, st, f"[{g!r}]= vs [{m!r}]=: {_short(rg[1])} | {_short(rm[1])}", be))
        elif s == "setrows":
            where = st["where"]
            w = slice(*where["slice"]) if "slice" in where else numpy.array(where["mask"], dtype=bool)
            cnt = len(st["rows"][gn[0]])
            perm = st.get("perm") or list(range(len(gn)))
            sg = numpy.zeros(cnt, dtype=[(gn[q], "f8") for q in perm])
            sm = numpy.zeros(cnt, dtype=[(st["m"][q], "f8") for q in perm])
            for g, nm in zip(gn, st["m"]):
                sg[g] = st["rows"][g]
                sm[nm] = st["rows"][g]
            rg, rm = twin_call(i, lambda: Gv.__setitem__(w, sg), lambda: Mv.__setitem__(w, sm))
            if rg[0] != rm[0]:
                viol.append(_viol("one-raises-other-not", i, st, f"[rows]= : generic {_short(rg[1])} | momentum {_short(rm[1])}", be))
        # after every step the twins hold identical numbers
        if not _same(Gv, Mv):
            viol.append(_viol("twins-diverged", i, st, f"generic {_short(Gv)} | momentum {_short(Mv)}", be))
            break
        if any(not _same(rg_, rm_) for rg_, rm_ in rels):
            k_ = next(q for q, (rg_, rm_) in enumerate(rels) if not _same(rg_, rm_))
            viol.append(_viol("twins-diverged", i, st, f"relative {k_}: generic {_short(rels[k_][0])} | momentum {_short(rels[k_][1])}", be))
            break
    return _done(viol, stats, case)


def _done(viol, stats, case):
    stats["ops"] = stats["steps"]
    stats["cells"] = sorted(stats.pop("states"))
    stats["nontrivial"] = any(s["s"] in ("set", "iop", "setcol", "setrows") for s in case["steps"]) or bool(sum(stats["faults_fired"].values()))
    stats["extra"] = {"synonym_table_cells": stats.pop("table_cells")}
    stats["mut_ops"] = sum(1 for s in case["steps"] if s["s"] in ("set", "iop", "setcol", "setrows"))
    return {"viol": viol, "stats": stats}
