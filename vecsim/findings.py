"""Known findings: listed in /verif/known_findings.json (committed, never written at run time).

A violation is attributed to a listed finding *by experiment*, not by message
matching: the case is re-run with the finding's trigger ops neutralised (replaced by
an equivalent construction that does not share the user-held resource / does not
touch the class attribute); if the violation disappears it is that finding.
``fixed`` entries suppress nothing.
"""

from __future__ import annotations

import copy
import json
import os
import re

from . import env

PATH = os.path.join(env.VERIF, "known_findings.json")

_MOM_NAMES = {"px", "py", "pt", "pz", "E", "e", "energy", "M", "m", "mass"}


def load():
    with open(PATH) as fh:
        data = json.load(fh)
    return data["findings"]


def known(prop):
    return [f for f in load() if f["status"] == "known" and prop in f["properties"]]


# ----------------------------------------------------------------------------- neutralisers

def _all_ops(world):
    for j, op in enumerate(world["pool"]):
        yield ("P", j), op
    for k, prog in enumerate(world["progs"]):
        for i, op in enumerate(prog):
            yield ("T", k, i), op


def _is_momentum_cls(path):
    return isinstance(path, dict) and path.get("$") == "path" and "MomentumNumpy" in str(path.get("v"))


def _neutralise_shared_dtype(world):
    """F-B: a Momentum NumPy class is handed a dtype object / base array the user still holds.
    Neutralised by giving the class its own private copy (same values, same names)."""
    w = copy.deepcopy(world)
    changed = False
    for key, op in _all_ops(w):
        f = op["f"]
        if f == "vecsim.view" and _is_momentum_cls(op["a"][1]):
            op["f"] = "vecsim.view_private"
            changed = True
        elif f in ("vector.array", "vector.arr") or re.match(r"vector\.(Momentum|Vector)Numpy[234]D$", f):
            dt = op.get("k", {}).get("dtype")
            if isinstance(dt, dict) and dt.get("$") in ("p", "r", "m"):
                op["k"]["dtype"] = {"$": "dtcopy", "v": dt}
                changed = True
            a = op.get("a", [])
            if a and isinstance(a[0], dict) and a[0].get("$") in ("p", "r", "m") and op.get("rawsrc"):
                op["a"][0] = {"$": "rawcopy", "v": a[0]}
                changed = True
    return w if changed else None


_COORD_CLS = re.compile(r"vector\.backends\.numpy\.(Azimuthal|Longitudinal|Temporal)Numpy(XY|RhoPhi|Z|Theta|Eta|T|Tau)$")


def _neutralise_coord_class_dtype(world):
    """F-C: constructing a NumPy coordinate class with dtype= overwrites the class attribute.
    Neutralised by replacing the construction with another call that raises TypeError."""
    w = copy.deepcopy(world)
    changed = False
    for key, op in _all_ops(w):
        if _COORD_CLS.match(op["f"]) and "dtype" in op.get("k", {}):
            keep = {k: op[k] for k in ("cat",) if k in op}
            op.clear()
            op.update({"f": "vector.obj", "k": {"x": 1.0, "phi": 2.0}}, **keep)
            changed = True
    return w if changed else None


NEUTRALISERS = {
    "shared-dtype-renamed-in-place": _neutralise_shared_dtype,
    "coordinate-class-dtype-attribute": _neutralise_coord_class_dtype,
}


def neutralise(finding, case):
    if case.get("kind") != "world":
        return None
    fn = NEUTRALISERS.get(finding.get("neutraliser"))
    if fn is None:
        return None
    return fn(case)
