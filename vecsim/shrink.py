"""Minimisation (ddmin): the same violation class must persist.

world:   drop threads -> drop ops (with the dependency closure kept and references
         re-indexed) -> drop faults -> reset configuration knobs -> serial schedule if
         the violation does not need interleaving.
history: drop steps -> drop faults.
"""

from __future__ import annotations

import copy

from . import engine, ops
from .world import closure


def _reindex(x, pmap, rmap, mmap=None):
    if isinstance(x, list):
        return [_reindex(e, pmap, rmap) for e in x]
    if isinstance(x, dict):
        t = x.get("$")
        if t == "p":
            return {"$": "p", "v": pmap[x["v"]]}
        if t == "r":
            return {"$": "r", "v": rmap[x["v"]]}
        if t is None:
            return {k: _reindex(v, pmap, rmap) for k, v in x.items()}
        if "v" in x:
            y = dict(x)
            y["v"] = _reindex(x["v"], pmap, rmap)
            return y
    return x


def project(world, keep_pool, keep_t):
    """World restricted to the kept ops (must be closure-complete), references re-indexed."""
    w = {k: v for k, v in world.items() if k not in ("pool", "progs", "faults", "iso_targets")}
    pmap = {}
    pool = []
    for j, op in enumerate(world["pool"]):
        if j in keep_pool:
            pmap[j] = len(pool)
            pool.append(op)
    pool = [dict(op, a=_reindex(op.get("a", []), pmap, {}), k=_reindex(op.get("k", {}), pmap, {})) for op in pool]
    progs = []
    faults = []
    tmap = {}
    for k, prog in enumerate(world["progs"]):
        rmap = {}
        newp = []
        for i, op in enumerate(prog):
            if (k, i) in keep_t:
                rmap[i] = len(newp)
                newp.append(op)
        if not newp:
            continue
        tnew = len(progs)
        tmap[k] = (tnew, rmap)
        progs.append([dict(op, a=_reindex(op.get("a", []), pmap, rmap), k=_reindex(op.get("k", {}), pmap, rmap)) for op in newp])
    for f in world.get("faults", ()):
        if f["t"] == "P":
            if f["i"] in pmap:
                faults.append(dict(f, i=pmap[f["i"]]))
        elif f["t"] in tmap and f["i"] in tmap[f["t"]][1]:
            faults.append(dict(f, t=tmap[f["t"]][0], i=tmap[f["t"]][1][f["i"]]))
    for op in pool + [o for p in progs for o in p]:
        if not op.get("k"):
            op.pop("k", None)
    if world.get("iso_targets") is not None:
        tg = []
        for t in world["iso_targets"]:
            if t[0] == "P" and t[1] in pmap:
                tg.append(["P", pmap[t[1]]])
            elif t[0] == "T" and t[1] in tmap and t[2] in tmap[t[1]][1]:
                tg.append(["T", tmap[t[1]][0], tmap[t[1]][1][t[2]]])
        w["iso_targets"] = tg
    w["pool"] = pool
    w["progs"] = progs if progs else [[]]
    w["faults"] = faults
    es = world["config"].get("errstate") or []
    w["config"] = dict(world["config"], errstate=[es[k] if k < len(es) else None for k in sorted(tmap, key=lambda q: tmap[q][0])])
    return w


def _units(world):
    u = [("P", j) for j in range(len(world["pool"]))]
    for k, prog in enumerate(world["progs"]):
        u += [("T", k, i) for i in range(len(prog))]
    return u


def _closed(world, units):
    kp, kt = set(), set()
    for u in units:
        p, t = closure(world, u)
        kp |= p
        kt |= t
    return kp, kt


def ddmin(units, test, budget):
    """Classic ddmin over a list of units; test(subset) -> True if the violation persists."""
    n = 2
    cur = list(units)
    while len(cur) >= 2 and budget[0] > 0:
        chunk = max(len(cur) // n, 1)
        subsets = [cur[i:i + chunk] for i in range(0, len(cur), chunk)]
        reduced = False
        for s in subsets:
            if budget[0] <= 0:
                break
            comp = [u for u in cur if u not in s]
            if not comp:
                continue
            budget[0] -= 1
            if test(comp):
                cur = comp
                n = max(n - 1, 2)
                reduced = True
                break
        if not reduced:
            if n >= len(cur):
                break
            n = min(n * 2, len(cur))
    return cur


def shrink(case, target_sigs, tier="quick", max_runs=120, log=None):
    """Return a smaller case that still shows a violation whose loose signature is in target_sigs."""
    budget = [max_runs]

    def persists(c):
        try:
            out = engine.run_case(c, tier)
        except Exception:
            return False
        return any(engine.loose_sig(v) in target_sigs for v in out["viol"])

    if case["kind"] == "world":
        return _shrink_world(case, persists, budget, log)
    return _shrink_hist(case, persists, budget, log)


def _shrink_world(world, persists, budget, log):
    cur = world
    units = _units(cur)

    def test(sub):
        kp, kt = _closed(cur, sub)
        if not kt and not kp:
            return False
        return persists(project(cur, kp, kt))

    # whole threads first
    for k in reversed(range(len(cur["progs"]))):
        if budget[0] <= 0 or len(cur["progs"]) <= 1:
            break
        sub = [u for u in _units(cur) if not (u[0] == "T" and u[1] == k)]
        kp, kt = _closed(cur, sub)
        budget[0] -= 1
        cand = project(cur, kp, kt)
        if persists(cand):
            cur = cand
    units = _units(cur)
    kept = ddmin(units, test, budget)
    kp, kt = _closed(cur, kept)
    cand = project(cur, kp, kt)
    if persists(cand):
        cur = cand
    # faults
    for idx in reversed(range(len(cur.get("faults", [])))):
        if budget[0] <= 0:
            break
        c2 = copy.deepcopy(cur)
        del c2["faults"][idx]
        if not any(f["seam"] in ("lib", "alloc") for f in c2["faults"]):
            c2["config"]["simlib"] = False
        budget[0] -= 1
        if persists(c2):
            cur = c2
    # configuration knobs back to defaults
    for key, dflt in (("warnfilter", "default"), ("printopts", None), ("awk_mode", "unregistered"), ("errstate", None)):
        if budget[0] <= 0 or cur["config"].get(key) == dflt:
            continue
        c2 = copy.deepcopy(cur)
        c2["config"][key] = dflt if key != "errstate" else [None] * len(c2["progs"])
        budget[0] -= 1
        if persists(c2):
            cur = c2
    # does it need interleaving at all?
    if len(cur["progs"]) > 1 and budget[0] > 0:
        c2 = copy.deepcopy(cur)
        c2["serial_only"] = True
        budget[0] -= 1
        if persists(c2):
            cur = c2
    # freeze isolation targets to nothing if not needed
    if budget[0] > 0 and cur.get("niso", 1) != 0 and not cur.get("iso_targets"):
        c2 = copy.deepcopy(cur)
        c2["niso"] = 0
        budget[0] -= 1
        if persists(c2):
            cur = c2
    return cur


def _shrink_hist(case, persists, budget, log):
    cur = case
    key = "steps"

    def build(sub_idx):
        c = copy.deepcopy(cur)
        idx = sorted(sub_idx)
        remap = {old: new for new, old in enumerate(idx)}
        c[key] = [cur[key][i] for i in idx]
        c["faults"] = [dict(f, i=remap[f["i"]]) for f in cur.get("faults", ()) if f["i"] in remap]
        return c

    units = list(range(len(cur[key])))
    kept = ddmin(units, lambda sub: persists(build(sub)), budget)
    cand = build(kept)
    if persists(cand):
        cur = cand
    for idx in reversed(range(len(cur.get("faults", [])))):
        if budget[0] <= 0:
            break
        c2 = copy.deepcopy(cur)
        del c2["faults"][idx]
        budget[0] -= 1
        if persists(c2):
            cur = c2
    return cur
