"""One simulated run = one case (JSON) executed under its passes; returns violations + stats.

Case kinds:
  world    - pool + thread programs + fault plan + schedule (C16, C20)
  hist15   - history of assignments / in-place ops on one object vector (C15)
  twin14   - twin histories generic vs momentum spelling (C14)
  deriv19  - derivation history of NumPy vector arrays (C19)
"""

from __future__ import annotations

import hashlib
import json
import random

from . import env, runner, sites


def case_id(case):
    return hashlib.sha256(json.dumps(case, sort_keys=True, default=str).encode()).hexdigest()[:12]


# ----------------------------------------------------------------------------- generation

def generate(kind, seed, tier="quick", focus=None):
    if kind == "world":
        from . import gen

        return gen.make_world(seed, tier, focus or "C20")
    if kind == "hist15":
        from . import hist15

        return hist15.gen_case(seed, tier)
    if kind == "twin14":
        from . import twin14

        return twin14.gen_case(seed, tier)
    if kind == "deriv19":
        from . import deriv19

        return deriv19.gen_case(seed, tier)
    if kind == "directed":
        from . import directed

        return directed.gen_case(seed, tier, focus)
    raise ValueError(kind)


# ----------------------------------------------------------------------------- worlds

def world_passes(world):
    n = len(world["progs"])
    sch = dict(world["sched"])
    if sch.get("kind") in ("sites", "parkop") and "sites" not in sch:
        sch["sites"] = sites.hot_sites(tuple(sch.get("which", ("with", "store", "flag"))))
    passes = [{"name": "P0", "sched": {"kind": "serial", "order": list(range(n))}, "cells": True}]
    if n > 1 and not world.get("serial_only"):
        passes.append({"name": "P1", "sched": {"kind": "serial", "order": list(reversed(range(n)))}})
        passes.append({"name": "P2", "sched": sch, "want_list": True})
    return passes


def iso_targets(world, rng, count):
    if world.get("iso_targets") is not None:
        return [list(t) for t in world["iso_targets"]]
    targets = []
    for k, prog in enumerate(world["progs"]):
        for i in range(len(prog)):
            targets.append(["T", k, i])
    for j in range(len(world["pool"])):
        targets.append(["P", j])
    rng.shuffle(targets)
    return targets[:count]


def run_world(world, tier="quick", timeout=120.0):
    passes = world_passes(world)
    results = []
    harness = []
    for ps in passes:
        res = runner.run_world_pass(world, ps, timeout=timeout)
        results.append(res)
        harness.extend(res["errors"])
    viol = []
    for res in results:
        viol.extend(res["viol"])
        if res["stall"]:
            # a parked thread may hold a blocking primitive the running thread waits for: under the baton that is
            # an artefact of the scheduler, not a verdict - classified as a harness error (exit 2, never exit 0)
            harness.append(f"stall in {res['name']}: {res['stall']}")
    viol.extend(runner.compare_outcomes(world, results))
    rng = random.Random(world.get("seed", 0) ^ 0x150)
    niso = world.get("niso", 2 if tier == "quick" else 5)
    iso_res = []
    n = len(world["progs"])
    for tgt in iso_targets(world, rng, niso):
        ps = {"name": f"Piso[{':'.join(map(str, tgt))}]", "sched": {"kind": "serial", "order": list(range(n))}, "iso": tgt}
        res = runner.run_world_pass(world, ps, timeout=timeout)
        iso_res.append(res)
        viol.extend(res["viol"])
        viol.extend(runner.compare_outcomes(world, [results[0], res]))
        harness.extend(res["errors"])
    ncold = 0
    if world.get("cold") and len(results) > 2:
        # cold-start variant: the interleaved pass again, in a fresh interpreter where the lazily imported compute
        # modules are first imported by the racing threads
        ps = dict(passes[2], name="Pcold")
        cres = runner.run_world_pass_cold(world, ps, timeout=timeout + 60)
        ncold = 1
        viol.extend(v for v in cres["viol"] if v["inv"] != "I1" or not v["aspect"].startswith("global:"))
        viol.extend(runner.compare_outcomes(world, [results[0], results[1], cres]))
        harness.extend(cres["errors"])
        if cres["stall"]:
            harness.append(f"stall in Pcold: {cres['stall']}")
    p0 = results[0]
    p2 = results[2] if len(results) > 2 else None
    st = p0["stats"]
    stats = {
        "ops": st["ops"], "raised": st["raised"], "natural_exc": st["natural_exc"], "faults_planned": st["faults_planned"],
        "faults_fired": st["faults_fired"], "mut_ops": st["mut_ops"], "passes": len(results) + len(iso_res),
        "points": sum(r["sched"]["points"] for r in results + iso_res),
        "switches": p2["sched"]["switches"] if p2 else 0,
        "switches_inop": p2["sched"]["switches_inop"] if p2 else 0,
        "interleaving": p2["sched"]["digest"] if p2 and p2["sched"]["switches_inop"] else None,
        "policy": (world["sched"].get("kind") if p2 else "serial"),
        "capped": any(r["sched"]["capped"] for r in results),
        "observed": sum(r["stats"]["observed"] for r in results),
        "quiescent": sum(r["sched"]["quiescent"] for r in results),
        "lib_calls": p0["lib_calls"], "flt_calls": p0["flt_calls"],
        "unblocked": sum(r["sched"].get("unblocked", 0) for r in results),
        "lockwaits": sum(r["sched"].get("lockwaits", 0) for r in results),
        "cells": p0.get("cells", []),
        "raised_in_dispatch": p0.get("raised_in_dispatch", []),
        "variants": p0.get("variants", []),
        "iso": len(iso_res),
        "extra": {"cold_start_passes": ncold},
    }
    stats["nontrivial"] = bool(stats["switches_inop"] or sum(st["faults_fired"].values()) or st["mut_ops"])
    out = {"viol": viol, "stats": stats, "harness": harness}
    if p2 is not None:
        out["sched_list"] = p2["sched"].get("list")
    return out


# ----------------------------------------------------------------------------- histories

class CaseTooSlow(BaseException):
    pass


def _child_hist(modname, case):
    import importlib
    import signal

    vector = env.warm()
    mod = importlib.import_module("vecsim." + modname)

    def _alarm(signum, frame):
        raise CaseTooSlow()

    # symbolic expressions can swell without bound; such a case is abandoned (counted), never judged
    signal.signal(signal.SIGALRM, _alarm)
    signal.alarm(40)
    try:
        return mod.run_case(case, vector)
    except CaseTooSlow:
        return {"viol": [], "stats": {"ops": 0, "raised": 0, "nontrivial": False, "extra": {"abandoned_slow_symbolic": 1}}}
    finally:
        signal.alarm(0)


def run_case(case, tier="quick", timeout=120.0):
    kind = case["kind"]
    if kind == "world":
        return run_world(case, tier, timeout)
    if kind in ("hist15", "twin14", "deriv19"):
        out = runner.fork_call(_child_hist, kind, case, timeout=timeout)
        out.setdefault("harness", [])
        return out
    raise ValueError(kind)


# ----------------------------------------------------------------------------- signatures

def sig(v):
    """Violation signature: what must persist while shrinking, and what known findings match on."""
    site = v["site"]
    parts = site.split(":")
    opname = parts[-1] if len(parts) >= 3 else site
    return f"{v['prop']}|{v['inv']}|{_aspect_class(v['aspect'])}|{opname}"


def loose_sig(v):
    """Signature without the op name (used while shrinking: the site may move)."""
    return f"{v['prop']}|{v['inv']}|{_aspect_class(v['aspect'])}"


def _aspect_class(a):
    for sep in (" (", " '", " [", "->"):
        if sep in a:
            a = a.split(sep)[0]
    return a.strip()
