"""Determinism self-test: the same VERIF_SEED must give the same event log
(every case key, every violation signature, every switch-trace digest) in a fresh
interpreter, under another PYTHONHASHSEED, and at another worker count."""

from __future__ import annotations

import os
import re
import subprocess
import sys
import time

from . import env

CASES = {"C20": 96, "C16": 48, "C15": 600, "C14": 300, "C19": 600}


def _run(prop, seed, cases, jobs, hashseed):
    e = dict(os.environ)
    e["VECSIM_HASHSEED"] = str(hashseed)
    e["PYTHONHASHSEED"] = str(hashseed)
    e.pop("VERIF_SEED", None)
    cmd = [sys.executable, "-m", "vecsim.cli", prop, "--seed", str(seed), "--cases", str(cases), "--jobs", str(jobs),
           "--digest", "--no-evidence", "--no-shrink", "--budget", "900", "--sweeps", "10"]
    p = subprocess.run(cmd, cwd=env.VERIF, env=e, capture_output=True, text=True, timeout=1500)
    m = re.search(r"EVENTLOG-DIGEST (\w+) cases=(\d+)", p.stdout)
    if not m:
        return None, p.stdout[-600:] + p.stderr[-600:]
    return (m.group(1), int(m.group(2))), ""


def main(args):
    fast = os.environ.get("VECSIM_SELFTEST_FAST") or args.tier == "quick"
    seeds = (11, 12) if fast else (11, 12, 13, 14, 15, 16)
    props = list(CASES)
    t0 = time.time()
    bad = 0
    for prop in props:
        n = CASES[prop] if not fast else max(CASES[prop] // 3, 16)
        for seed in seeds:
            configs = [(16, 0), (16, 0), (1 if fast else 3, 1)]
            got = []
            for jobs, hs in configs:
                d, err = _run(prop, seed, n, jobs, hs)
                if d is None:
                    print(f"selftest {prop} seed={seed} jobs={jobs} hashseed={hs}: no digest: {err}")
                    bad += 1
                got.append(d)
            ok = len({g for g in got}) == 1 and got[0] is not None
            print(f"selftest {prop} seed={seed} cases={n}: {'deterministic' if ok else 'DIVERGED'} {got}", flush=True)
            if not ok:
                bad += 1
    print(f"selftest done in {time.time() - t0:.0f}s; {'all deterministic' if not bad else str(bad) + ' problem(s)'}")
    return 0 if not bad else 2
