"""Canonical digests of values, bit-for-bit snapshots of operands, and the
process-wide state snapshot (I1).  No clocks, no randomness, no set iteration."""

from __future__ import annotations

import hashlib
import re
import warnings

import numpy

_ADDR = re.compile(r"0x[0-9a-fA-F]+")
_PYADDR = re.compile(r" at 0x[0-9a-fA-F]+")


# the per-view state that *is* the coordinate system of a NumPy vector array; any other instance attribute
# (a private cache, say) is neither part of a value nor operand state in the sense of C16
_COORD_KEYS = ("_azimuthal_type", "_longitudinal_type", "_temporal_type")


def _dt(v):
    """Real dtype of an ndarray (the coordinate classes shadow ``dtype`` with a class attribute)."""
    return numpy.ndarray.dtype.__get__(v)


def _fhex(x):
    x = float(x)
    if x != x:
        return "nan"
    return x.hex()


def _clsname(v):
    t = type(v)
    return f"{t.__module__.replace('vector.backends.', 'vb.')}.{t.__qualname__}"


def canon_exc(e: BaseException):
    msg = _ADDR.sub("0x?", str(e))
    if len(msg) > 400:
        msg = msg[:400] + "..."
    return ["EXC", type(e).__name__, msg]


def canon(v, depth=0, behavior=False):
    """JSON-able canonical form of a value (class, flavor, coordinate classes, dtype, shape, bits)."""
    if depth > 8:
        return ["DEEP", _clsname(v)]
    if v is None or isinstance(v, (bool, str)):
        return v
    if isinstance(v, BaseException):
        return canon_exc(v)
    if isinstance(v, int) and not isinstance(v, numpy.generic):
        return ["int", str(v)]
    if isinstance(v, float) and not isinstance(v, numpy.generic):
        return [type(v).__name__, _fhex(v)]
    if isinstance(v, complex):
        return ["complex", _fhex(v.real), _fhex(v.imag)]
    if isinstance(v, numpy.generic) and v.dtype.names is None:
        return ["np." + type(v).__name__, v.tobytes().hex()]
    import vector
    import vector.backends.object as vob

    if isinstance(v, vob.VectorObject):
        out = ["VOBJ", type(v).__name__]
        for g in ("azimuthal", "longitudinal", "temporal"):
            if hasattr(type(v), g) or g in getattr(type(v), "__slots__", ()):
                try:
                    c = getattr(v, g)
                except AttributeError:
                    out.append([g, "MISSING"])
                    continue
                out.append([type(c).__name__, [canon(e, depth + 1) for e in tuple(c)]])
        return out
    if isinstance(v, vob.CoordinatesObject):
        return ["COBJ", type(v).__name__, [canon(e, depth + 1) for e in tuple(v)]]
    if isinstance(v, numpy.ndarray):
        dt = _dt(v)
        out = ["ND", _clsname(v), str(dt.descr) if dt.names else str(dt), list(v.shape)]
        try:
            out.append(hashlib.sha256(v.view(numpy.ndarray).tobytes()).hexdigest()[:24]
                       if dt != object else repr(v.tolist()))
        except Exception as e:  # pragma: no cover
            out.append("BYTES?" + type(e).__name__)
        d = getattr(v, "__dict__", None)
        if d:
            # only the per-view coordinate types are part of the value; any other instance attribute (a cache) is not
            cd = sorted((k, getattr(x, "__name__", repr(x))) for k, x in d.items() if k in _COORD_KEYS)
            if cd:
                out.append(cd)
        return out
    if isinstance(v, numpy.void):
        return ["VOID", str(v.dtype.descr), v.tobytes().hex()]
    try:
        import awkward as ak
    except ImportError:  # pragma: no cover
        ak = None
    if ak is not None and isinstance(v, (ak.Array, ak.Record)):
        out = ["AK", type(v).__name__, str(v.type), _aklist(ak.to_list(v))]
        if behavior:
            out.append(_beh(v.behavior))
        return out
    if ak is not None and isinstance(v, ak.highlevel.ArrayBuilder):
        return ["AKB"]
    try:
        import vector.backends.sympy as vsy
        import sympy
    except ImportError:  # pragma: no cover
        vsy = None
    if vsy is not None:
        if isinstance(v, vsy.VectorSympy):
            out = ["VSYM", type(v).__name__]
            for g in ("azimuthal", "longitudinal", "temporal"):
                c = getattr(v, g, None)
                if c is not None:
                    out.append([type(c).__name__, [sympy.srepr(e) for e in c.elements]])
            return out
        if isinstance(v, sympy.Basic):
            return ["SYM", sympy.srepr(v)]
        if isinstance(v, getattr(vsy, "CoordinatesSympy", ())):
            return ["CSYM", type(v).__name__, [sympy.srepr(e) for e in v.elements]]
    if isinstance(v, (tuple, list)):
        return [type(v).__name__, [canon(e, depth + 1, behavior) for e in v]]
    if isinstance(v, dict):
        return ["dict", [[canon(k, depth + 1), canon(x, depth + 1, behavior)] for k, x in v.items()]]
    if isinstance(v, (bytes, bytearray)):
        return ["bytes", hashlib.sha256(bytes(v)).hexdigest()[:24], len(v)]
    if isinstance(v, numpy.dtype):
        return ["dtype", str(v.descr) if v.names else str(v)]
    if isinstance(v, type):
        return ["type", v.__name__]
    return ["OTHER", _clsname(v), _PYADDR.sub("", _ADDR.sub("0x?", repr(v)))[:300]]


def _aklist(x):
    if isinstance(x, float):
        return _fhex(x)
    if isinstance(x, list):
        return [_aklist(e) for e in x]
    if isinstance(x, dict):
        return {k: _aklist(e) for k, e in x.items()}
    if isinstance(x, tuple):
        return [_aklist(e) for e in x]
    return x


_beh_cache: dict = {}


def _beh(b):
    """Content signature of a behavior mapping (identity does not matter: an equal copy is 'unchanged')."""
    if b is None:
        return "beh:None"
    import awkward

    if b is awkward.behavior:
        return "beh:global-registry"  # its content is process-wide state (I1), not operand state
    try:
        key = (id(b), len(b))
        sig = _beh_cache.get(key)
        if sig is None:
            sig = _beh_cache[key] = f"beh:{len(b)}:{hashlib.sha256(repr(sorted(map(repr, b.keys()))).encode()).hexdigest()[:8]}"
        return sig
    except Exception:
        return "beh:?"


def digest(v, behavior=False):
    return hashlib.sha256(repr(canon(v, behavior=behavior)).encode()).hexdigest()[:20]


# ---------------------------------------------------------------------------
# bit-for-bit operand snapshots (I2): everything an operation could corrupt,
# including secondary resources (base array, dtype object, behavior dict).
# ---------------------------------------------------------------------------

def snap(v, depth=0):
    if depth > 4:
        return ("deep",)
    import vector.backends.object as vob

    if isinstance(v, vob.VectorObject):
        parts = [type(v).__name__]
        for g in ("azimuthal", "longitudinal", "temporal"):
            c = getattr(v, g, None)
            if c is not None:
                parts.append((type(c).__name__, 0, tuple((type(e).__name__, _fhex(e) if isinstance(e, (int, float, numpy.generic)) else repr(e)) for e in tuple(c))))
        return ("vobj", tuple(parts))
    if isinstance(v, numpy.ndarray):
        base = v.base
        bsnap = None
        if isinstance(base, numpy.ndarray):
            bdt = _dt(base)
            bsnap = (type(base).__name__, str(bdt.descr) if bdt.names else str(bdt), base.shape,
                     hashlib.sha256(base.view(numpy.ndarray).tobytes()).hexdigest()[:24] if bdt != object else None)
        d = getattr(v, "__dict__", None)
        dt = _dt(v)
        return ("nd", type(v).__name__, str(dt.descr) if dt.names else str(dt), 0, dt.names,
                v.shape, 0, 0,   # strides / writeable flag are not operand state in the sense of C16 (content is compared below)
                hashlib.sha256(v.view(numpy.ndarray).tobytes()).hexdigest()[:24] if dt != object else repr(v.tolist()),
                tuple(sorted((k, getattr(x, "__name__", repr(x))) for k, x in d.items() if k in _COORD_KEYS)) if d else (), bsnap)
    if isinstance(v, numpy.dtype):
        return ("dtype", 0, v.names, str(v.descr) if v.names else str(v))
    try:
        import awkward as ak
    except ImportError:  # pragma: no cover
        ak = None
    if ak is not None and isinstance(v, ak.Array):
        form, length, bufs = ak.to_buffers(v)
        return ("ak", type(v).__name__, form.to_json(), length,
                tuple((k, hashlib.sha256(numpy.asarray(b).tobytes()).hexdigest()[:16]) for k, b in sorted(bufs.items())),
                v.behavior is None, _beh(v.behavior), 0, tuple(ak.fields(v)))
    if ak is not None and isinstance(v, ak.Record):
        arr = ak.Array(v.layout.array)
        form, length, bufs = ak.to_buffers(arr)
        return ("akrec", type(v).__name__, v.layout.at, form.to_json(), length,
                tuple((k, hashlib.sha256(numpy.asarray(b).tobytes()).hexdigest()[:16]) for k, b in sorted(bufs.items())),
                v.behavior is None, _beh(v.behavior))
    try:
        import vector.backends.sympy as vsy
        import sympy
    except ImportError:  # pragma: no cover
        vsy = None
    if vsy is not None and isinstance(v, vsy.VectorSympy):
        return ("vsym", repr(canon(v)))
    if isinstance(v, dict):
        return ("dict", 0, tuple((repr(k), snap(x, depth + 1)) for k, x in v.items()))
    if isinstance(v, (list, tuple)):
        return (type(v).__name__, tuple(snap(x, depth + 1) for x in v))
    return ("val", repr(canon(v)))


def snap_diff(a, b):
    """Human-readable aspect that differs between two snapshots of the same operand."""
    if a == b:
        return None
    if a[0] != b[0]:
        return f"kind {a[0]}->{b[0]}"
    if a[0] == "nd":
        names = ("", "class", "dtype", "-", "dtype.names", "shape", "strides", "writeable", "bytes", "coordinate-types", "base-array")
        diffs = [names[i] for i in range(1, len(a)) if a[i] != b[i]]
        extra = ""
        if "dtype.names" in diffs:
            extra = f" {a[4]}->{b[4]}"
        if "base-array" in diffs and a[10] and b[10]:
            bn = ("class", "dtype", "shape", "bytes")
            extra += " base:" + ",".join(bn[i] for i in range(4) if a[10][i] != b[10][i])
        return "nd:" + ",".join(diffs) + extra
    if a[0] == "ak":
        names = ("", "class", "form", "length", "buffers", "behavior-none", "behavior-content", "-", "fields")
        return "ak:" + ",".join(names[i] for i in range(1, len(a)) if a[i] != b[i])
    if a[0] == "akrec":
        names = ("", "class", "at", "form", "length", "buffers", "behavior-none", "behavior-content")
        return "akrec:" + ",".join(names[i] for i in range(1, len(a)) if a[i] != b[i])
    if a[0] == "vobj":
        return f"vobj:{a[1]}->{b[1]}"
    if a[0] == "dtype":
        return f"dtype-object:names {a[2]}->{b[2]}"
    return f"{a[0]}:changed"


# ---------------------------------------------------------------------------
# process-wide state (I1)
# ---------------------------------------------------------------------------

def thread_state():
    """State that is local to the calling thread/context."""
    # numpy >= 2 keeps both the error state and the print options in context variables
    return (tuple(sorted(numpy.geterr().items())), repr(numpy.geterrcall()), numpy.getbufsize(),
            repr(sorted(numpy.get_printoptions().items(), key=lambda kv: kv[0])))


def _filters_canon():
    return tuple((f[0], getattr(f[1], "pattern", f[1]), f[2].__name__, getattr(f[3], "pattern", f[3]), f[4]) for f in warnings.filters)


def global_state(full=False):
    """Process-global state a vector call must leave exactly as it was."""
    import awkward
    import vector
    import vector.backends.awkward as vaw

    st = {
        "warnings.filters": (id(warnings.filters), _filters_canon()),
        "warnings.showwarning": (id(warnings.showwarning), id(warnings.formatwarning)),
        "awkward.behavior": (id(awkward.behavior), tuple(awkward.behavior.keys()), tuple(map(id, awkward.behavior.values()))),
        "_awkward_registered": vector._awkward_registered,
    }
    if full:
        import gc
        import os
        import random
        import sys
        import threading

        st["random"] = hashlib.sha256(repr(random.getstate()).encode()).hexdigest()[:12]
        st["np.random"] = hashlib.sha256(numpy.random.get_state()[1].tobytes()).hexdigest()[:12]
        st["recursionlimit"] = sys.getrecursionlimit()
        import decimal
        import locale

        st["decimal"] = repr(decimal.getcontext())
        try:
            st["locale"] = locale.setlocale(locale.LC_ALL, None)
        except Exception:
            st["locale"] = "?"
        st["cwd"] = os.getcwd()
        st["environ"] = hashlib.sha256(repr(sorted(os.environ.items())).encode()).hexdigest()[:12]
    return st


def state_diff(a, b):
    return [k for k in a if a[k] != b.get(k)]


def vector_owned_state():
    """Diagnosis only: module globals and class __dict__ values owned by vector."""
    import sys

    out = {}
    for name, mod in list(sys.modules.items()):
        if not (name == "vector" or name.startswith("vector.")) or mod is None:
            continue
        for k, v in list(vars(mod).items()):
            if k.startswith("__"):
                continue
            if isinstance(v, (int, float, str, bool, type(None), tuple)):
                out[f"{name}.{k}"] = repr(v)[:80]
            elif isinstance(v, (list, dict, set)):
                out[f"{name}.{k}"] = f"{type(v).__name__}:{len(v)}"
            elif isinstance(v, type) and getattr(v, "__module__", "") == name:
                for ck, cv in list(vars(v).items()):
                    if ck.startswith("__"):
                        continue
                    if isinstance(cv, (int, float, str, bool, type(None), numpy.dtype)):
                        out[f"{name}.{v.__name__}.{ck}"] = repr(cv)[:120]
    return out
