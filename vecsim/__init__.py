"""vecsim - deterministic simulation with fault injection for scikit-hep/vector.

See /verif/DESIGN.md.  Everything here is standard library + the repository's own
dependencies; /repo/src is put first on sys.path so the *current working tree* runs.
"""
