"""Command line: ./check <PROP> [--tier quick|thorough] [--seed N] [--replay FILE] ...

Exit 0: property held on everything explored (KNOWN-FINDING lines allowed).
Exit 1: a line "VIOLATION property=<id> replay=<path>" was printed.
Exit 2: harness error (never reported as a verdict).
"""

from __future__ import annotations

import argparse
import collections
import json
import os
import sys
import time

DEFAULT_SEED = 20261004

PLAN = {
    # prop: (case kinds with weights, quick cases, thorough cases, quick wall cap s, thorough wall cap s)
    "C20": ([("directed", 1), ("world", 6)], 1800, 40000, 90, 1100),
    "C16": ([("directed", 1), ("world", 6)], 1800, 40000, 75, 1100),
    "C15": ([("hist15", 40), ("mutworld", 1)], 40000, 600000, 70, 900),
    "C14": ([("twin14", 1)], 6000, 120000, 70, 900),
    "C19": ([("deriv19", 1)], 30000, 500000, 70, 900),
}


def _work(item):
    """Runs in a pool worker (forked from the warm, pristine parent)."""
    kind, seed, tier, focus = item
    from . import engine

    t0 = time.monotonic()
    try:
        case = engine.generate(kind, seed, tier, focus)
        out = engine.run_case(case, tier)
        return {"key": (kind, seed), "viol": out["viol"], "stats": out["stats"], "harness": out.get("harness", []),
                "wall": time.monotonic() - t0, "brief": _case_brief(case)}
    except Exception as e:  # harness error, classified apart from violations
        import traceback

        return {"key": (kind, seed), "viol": [], "stats": None, "harness": [f"{type(e).__name__}: {e}\n{traceback.format_exc()[-1500:]}"],
                "wall": time.monotonic() - t0, "brief": None}


def _case_brief(case):
    from . import ops

    if case["kind"] == "world":
        return {"kind": "world", "seed": case["seed"], "config": case["config"], "sched": {k: v for k, v in case["sched"].items() if k != "sites"},
                "pool": [ops.brief(o) for o in case["pool"][:6]],
                "progs": [[ops.brief(o) for o in p[:6]] for p in case["progs"]], "faults": case["faults"]}
    c = dict(case)
    if "steps" in c:
        c["steps"] = c["steps"][:8]
    return c


def _unused():
    pass


SWEEP_LIMIT = [None]


def _lim(n):
    return n if SWEEP_LIMIT[0] is None else min(n, SWEEP_LIMIT[0])


def plan_items(prop, tier, seed, ncases):
    kinds, q, th, _, _ = PLAN[prop]
    n = ncases if ncases else (q if tier == "quick" else th)
    bag = [k for k, w in kinds for _ in range(w)]
    items = []
    base = (seed * 1_000_003 + sum(map(ord, prop))) & 0x7FFFFFFF
    nd = 0
    if any(k == "directed" for k, _ in kinds):
        # "every dispatch variant once" sweep: 60 single-thread worlds, in every tier
        for q in range(_lim(60)):
            items.append(("directed", (base % 20000) * 100000 + 90000 + q, tier, prop))
        if prop in ("C16", "C20"):
            from . import directed as _d

            for q in range(_lim(len(_d.mutsym_templates()))):
                items.append(("directed", (base % 20000) * 100000 + 40000 + q, tier, prop))
        if prop == "C20":
            # "same operation from two threads" sweep over the whole catalogue (object + NumPy; Awkward too in thorough)
            from . import directed

            for q in range(_lim(6)):
                items.append(("directed", (base % 20000) * 100000 + 60000 + q, tier, prop))
            for q in range(_lim(len(directed.register_templates()))):
                items.append(("directed", (base % 20000) * 100000 + 70000 + q, tier, prop))
            for q in range(_lim(len(directed.manyclasses_templates()))):
                items.append(("directed", (base % 20000) * 100000 + 30000 + q, tier, prop))
            for q in range(_lim(len(directed.vrace_templates()))):
                items.append(("directed", (base % 20000) * 100000 + 50000 + q, tier, prop))
            npair = len(directed.pair_templates())
            for q in range(_lim(npair if tier == "thorough" else (npair * 2) // 3)):
                items.append(("directed", (base % 20000) * 100000 + 80000 + q, tier, prop))
            if tier != "thorough":
                # the Awkward third of the list: every second template in the quick tier, the phase chosen by the seed
                for q in range((npair * 2) // 3 + base % 2, _lim(npair) if SWEEP_LIMIT[0] is None else 0, 2):
                    items.append(("directed", (base % 20000) * 100000 + 80000 + q, tier, prop))
    sweeps, items = items, []
    for i in range(n):
        kind = bag[i % len(bag)]
        if kind == "mutworld":
            # in-place updates on private objects as one thread among others (directed 'mutators' template)
            from . import directed

            off = next(q for q, t in enumerate(directed.templates()) if t[0] == "mutators")
            items.append(("directed", (base % 20000) * 100000 + off + (nd % 48), tier, prop))
            nd += 1
        elif kind == "directed":
            # directed templates are enumerated (stride 101 spreads a short run over the whole list)
            items.append((kind, (base % 20000) * 100000 + (nd * 101) % 100000, tier, prop))
            nd += 1
        else:
            items.append((kind, (base + i * 7919) & 0x7FFFFFFF, tier, prop))
    if not sweeps:
        return items
    # enumerated sweeps and the random search are merged proportionally (a deterministic function of the two lengths), so
    # that a run cut short by its wall-clock cap on a loaded machine loses the same share of each, never one of them whole
    merged = []
    a = b = 0
    while a < len(sweeps) or b < len(items):
        if b >= len(items) or (a < len(sweeps) and a * len(items) <= b * len(sweeps)):
            merged.append(sweeps[a])
            a += 1
        else:
            merged.append(items[b])
            b += 1
    return merged


def main(argv=None):
    from . import env

    env.reexec_pinned(argv)
    ap = argparse.ArgumentParser(prog="check")
    ap.add_argument("prop")
    ap.add_argument("--tier", default=os.environ.get("VERIF_TIER", "quick"), choices=("quick", "thorough"))
    ap.add_argument("--seed", type=int, default=int(os.environ.get("VERIF_SEED", DEFAULT_SEED)))
    ap.add_argument("--budget", type=float, default=float(os.environ.get("VERIF_BUDGET_S", 0)) or None)
    ap.add_argument("--cases", type=int, default=None)
    ap.add_argument("--jobs", type=int, default=int(os.environ.get("VERIF_JOBS", 0)) or (os.cpu_count() or 4))
    ap.add_argument("--replay", default=None)
    ap.add_argument("--no-shrink", action="store_true")
    ap.add_argument("--sweeps", type=int, default=None, help="limit every enumerated sweep to its first N items (self-test only)")
    ap.add_argument("--no-evidence", action="store_true")
    ap.add_argument("--digest", action="store_true", help="print a digest of the whole event log (determinism self-test)")
    args = ap.parse_args(argv[1:] if argv else None)

    SWEEP_LIMIT[0] = args.sweeps
    if args.prop == "selftest":
        from . import selftest

        return selftest.main(args)

    print(f"VERIF_SEED={args.seed} property={args.prop} tier={args.tier} jobs={args.jobs}", flush=True)
    env.warm()
    env.warm_third_party()
    from . import report

    if args.replay:
        return report.replay(args)
    return report.run_check(args, plan_items, _work, PLAN)


def _main_guarded(argv):
    try:
        return main(argv)
    except SystemExit:
        raise
    except BaseException as e:  # a crash of the machinery is never a verdict
        import traceback

        traceback.print_exc()
        print(f"harness error: {type(e).__name__}: {e}", file=sys.stderr)
        return 2


if __name__ == "__main__":
    sys.exit(_main_guarded(sys.argv))
