"""C15 - in-place updates of object vectors: seeded histories of assignments and
in-place operators against an explicit model of the stored coordinates, with faults
(natural and injected) landing inside operations that have begun to compute."""

from __future__ import annotations

import math
import random

from . import coords as C
from . import faults, snapshot

GROUP_OF = {}
for _n in ("x", "y", "px", "py"):
    GROUP_OF[_n] = ("azimuthal", "XY")
for _n in ("rho", "phi", "pt"):
    GROUP_OF[_n] = ("azimuthal", "RhoPhi")
for _n in ("z", "pz"):
    GROUP_OF[_n] = ("longitudinal", "Z")
GROUP_OF["theta"] = ("longitudinal", "Theta")
GROUP_OF["eta"] = ("longitudinal", "Eta")
for _n in ("t", "E", "e", "energy"):
    GROUP_OF[_n] = ("temporal", "T")
for _n in ("tau", "M", "m", "mass"):
    GROUP_OF[_n] = ("temporal", "Tau")
PARTNER = {"x": "y", "y": "x", "rho": "phi", "phi": "rho"}
POS = {"x": 0, "y": 1, "rho": 0, "phi": 1}
SUFFIX2SYS = {"XY": "xy", "RhoPhi": "rhophi", "Z": "z", "Theta": "theta", "Eta": "eta", "T": "t", "Tau": "tau"}
GROUPS = ("azimuthal", "longitudinal", "temporal")
ALLNAMES = {2: ["x", "y", "rho", "phi"], 3: ["z", "theta", "eta"], 4: ["t", "tau"]}


# --------------------------------------------------------------------------- generation

def gen_vec(rng, dim, kinds=("float",), hazard=False, mom=None, be="obj"):
    sys_ = [s for s in C.SYSTEMS if C.dim_of(s) == dim]
    sys_ = sys_[rng.randrange(len(sys_))]
    if mom is None:
        mom = rng.random() < 0.5
    names = C.spell(rng, sys_, mom)
    vals = C.values(rng, sys_, hazard)
    if be == "sym":
        vals = {k_: (v_ if (v_ == v_ and abs(v_) < 1e18) else 1.0) for k_, v_ in vals.items()}
        coords = {sp: ({"$": "sym", "v": g} if rng.random() < 0.6 else {"$": "symnum", "v": [int(round(vals[g] * 4)) or 1, 4]})
                  for sp, g in zip(names, C.names_of(sys_))}
    else:
        coords = {sp: C.numkind(rng, vals[g], kinds) for sp, g in zip(names, C.names_of(sys_))}
    return {"be": be, "sys": list(sys_), "mom": mom, "coords": coords}


def gen_case(seed, tier="quick"):
    rng = random.Random(seed)
    be = "sym" if rng.random() < 0.12 else "obj"
    dim = rng.choice((2, 3, 3, 4, 4))
    fl = rng.random() < 0.5                          # fault-injecting configuration
    fault_kinds = [s for s in ("lib", "flt") if rng.random() < 0.7] or ["lib"]
    if be == "sym":
        fault_kinds = ["lib"]                         # symbolic coordinates cannot be SimFloats
    kinds = ("float",)
    r = rng.random()
    if be == "obj":
        if fl and "flt" in fault_kinds:
            kinds = ("simfloat",)
        elif r < 0.2:
            kinds = ("int", "float")
        elif r < 0.35:
            kinds = ("f64",)
        elif r < 0.45:
            kinds = ("float", "int", "f64")
        elif r < 0.53:
            kinds = ("float", "frac", "bigint", "int")   # exact rationals and ints beyond 2**53 are numbers.Real too
    hz = rng.random() < 0.35
    start = gen_vec(rng, dim, kinds, hazard=False, be=be)
    nsteps = rng.choice((1, 2, 3, 5, 8, 12, 20, 40)) if tier == "thorough" else rng.choice((1, 2, 3, 5, 8, 12))
    if be == "sym":
        nsteps = min(nsteps, 3)  # expression swell: symbolic histories stay short
    steps = []
    mom = start["mom"]
    allnames = {2: ["x", "y", "rho", "phi"], 3: ["z", "theta", "eta"], 4: ["t", "tau"]}
    weights = {"set": rng.choice((1, 3, 5)), "iop": rng.choice((1, 3, 5)), "out": rng.choice((0, 1, 2)), "read": rng.choice((0, 1, 2))}
    bag = [k for k, w in weights.items() for _ in range(w)]
    last_switched = False
    seen_vals = [C.lit_value(x) for x in start["coords"].values() if not (isinstance(x, dict) and x.get("$") in ("sym", "symnum"))]
    if be == "obj" and rng.random() < 0.1:
        # "same numbers, other system": the azimuthal pair (a, b) is stored first in one system, then - through two
        # assignments - in the other, then a coordinate of the first system is assigned again (every step needs the partner)
        names0 = C.names_of(tuple(start["sys"]))
        a, b = (C.lit_value(start["coords"][k]) for k in list(start["coords"])[:2])
        s1 = ("x", "y") if names0[0] == "x" else ("rho", "phi")
        s2 = ("rho", "phi") if s1[0] == "x" else ("x", "y")
        sp = lambda g: (rng.choice(C.SYN[g]) if (mom and g in C.SYN and rng.random() < 0.5) else g)  # noqa: E731
        enc = lambda v: C.numkind(rng, v, kinds)  # noqa: E731
        steps += [{"s": "set", "name": sp(s1[1]), "val": enc(b)}, {"s": "set", "name": sp(s2[0]), "val": enc(a)},
                  {"s": "set", "name": sp(s2[1]), "val": enc(b)}, {"s": "set", "name": sp(s1[0]), "val": enc(C.value(rng, s1[0]))},
                  {"s": "read", "name": s1[1]}]
    for i in range(nsteps):
        kind = rng.choice(bag)
        if kind == "set":
            g = rng.choice([n for d in range(2, dim + 1) for n in allnames[d]])
            if rng.random() < 0.03 and dim < 4:
                g = rng.choice(allnames[dim + 1])  # a coordinate this dimension does not have
            nm = rng.choice(C.SYN[g]) if (mom and g in C.SYN and rng.random() < 0.6) else g
            v = C.value(rng, g, hazard=hz and rng.random() < 0.25)
            if seen_vals and rng.random() < 0.25:
                v = rng.choice(seen_vals)     # recycled numbers (the same value under another coordinate name)
            seen_vals.append(v)
            if rng.random() < 0.15:
                # legal but unusual: angles outside their principal range, negative radii / proper times
                v = {"phi": round(rng.uniform(-9.5, 9.5), 3), "theta": round(rng.uniform(-4.0, 7.0), 3), "rho": -abs(v) if isinstance(v, float) else v,
                     "tau": -abs(v) if isinstance(v, float) else v, "eta": round(rng.uniform(-12.0, 12.0), 3)}.get(g, v)
            if be == "sym":
                if v != v or abs(v) > 1e18:
                    v = 1.0
                val = {"$": "sym", "v": g + "n"} if rng.random() < 0.5 else {"$": "symnum", "v": [int(round(v * 4)) or 1, 4]}
            else:
                val = C.numkind(rng, v, kinds)
            steps.append({"s": "set", "name": nm, "val": val})
            last_switched = True
        elif kind in ("iop", "out"):
            op = rng.choice(("iadd", "isub", "imul", "itruediv"))
            if kind == "out":
                op = rng.choice(("add", "subtract", "multiply", "negative", "true_divide"))
            if op in ("iadd", "isub", "add", "subtract"):
                r2 = rng.random()
                odim = dim if r2 < 0.9 else rng.choice((2, 3, 4))
                obe = be
                if r2 > 0.96:
                    obe = rng.choice(("obj", "sym", "np", "scalar"))
                w = gen_vec(rng, odim, kinds if obe == "obj" else ("float",), hazard=hz and rng.random() < 0.35, be=obe if obe != "scalar" else "obj")
                if obe == "scalar":
                    w = {"be": "scalar", "v": 2.5}
                if rng.random() < 0.06:
                    w = {"be": "self"}      # v += v, v -= v, numpy.add(a, v, out=v)
                st = {"s": kind, "op": op, "arg": w}
                if kind == "out":
                    st["arg0"] = gen_vec(rng, dim, kinds, hazard=hz and rng.random() < 0.2, be=be) if rng.random() < 0.85 else {"be": "self"}
            else:
                f = rng.choice((2.0, 0.5, -1.5, 3, 1.0, -1, {"$": "f64", "v": 1.25}, 0.0 if rng.random() < 0.3 else 4.0, 0 if rng.random() < 0.3 else 2))
                if rng.random() < 0.12:
                    # scale factors whose reciprocal / product is not what a detour through float gives
                    f = rng.choice((2 ** 53 + 1, 10 ** 17 + 3, -(2 ** 53 + 3), 3 ** 41, {"$": "frac", "v": [1, 3]}, {"$": "frac", "v": [-7, 2]},
                                    {"$": "frac", "v": [2 ** 53 + 1, 2 ** 53 - 1]}, {"$": "dec", "v": "2.5"}, {"$": "dec", "v": "0.1"}))
                if rng.random() < 0.03:
                    f = None
                st = {"s": kind, "op": op, "arg": f}
                if kind == "out" and op == "negative":
                    st.pop("arg")
            steps.append(st)
            last_switched = False
        else:
            g = rng.choice([n for d in range(2, dim + 1) for n in allnames[d]] + ["rho2", "mag" if dim >= 3 else "rho", "tau2" if dim >= 4 else "phi"])
            steps.append({"s": "read", "name": g})
    flts = []
    if fl:
        # place faults inside steps that compute; bias to land right after a step that switched the stored system
        cand = [i for i, s in enumerate(steps) if s["s"] in ("iop", "out")]
        pref = [i for i in cand if i > 0 and steps[i - 1]["s"] == "set"]
        rng.shuffle(cand)
        chosen = (pref[:1] + cand)[: rng.choice((1, 1, 2, 3))]
        for i in sorted(set(chosen)):
            flts.append({"i": i, "seam": rng.choice(fault_kinds), "n": rng.choice((1, 1, 2, 2, 3, 4, 6)),
                         "exc": rng.choice(("FloatingPointError", "MemoryError", "OverflowError", "ZeroDivisionError", "SimCancel", "Reenter"))})
        if rng.random() < 0.3:
            cs = [i for i, s in enumerate(steps) if s["s"] == "set"]
            if cs:
                flts.append({"i": rng.choice(cs), "seam": rng.choice(fault_kinds), "n": 1, "exc": "MemoryError"})
    rx = random.Random(seed * 104729 + 7)     # its own stream: the cases of earlier seeds stay what they were
    if rx.random() < (0.6 if be == "sym" else 0.25):
        # relatives: vectors obtained *from the target* earlier in the history (a copy, a rotation that keeps the other
        # coordinate groups, a same-system conversion, a vector built from the target's own coordinate objects). They are
        # bystanders of every later step (an in-place update of the target is not an update of them) and they come back as
        # right-hand operands, where the functional twin uses the value they had when they were made.
        hows = ["copy", "rotateZ", "ctor", "same", "neg", "deepcopy"] + (["rotateX", "rotate_axis"] if dim >= 3 else [])
        at = rx.randrange(len(steps) + 1)
        nrel = rx.choice((1, 1, 2))
        ins = [{"s": "derive", "how": rx.choice(hows), "a": round(rx.uniform(-3, 3), 3)} for _ in range(nrel)]
        steps[at:at] = ins
        for f_ in flts:
            if f_["i"] >= at:
                f_["i"] += nrel
        for st_ in steps[at + nrel:]:
            if st_["s"] in ("iop", "out") and st_["op"] in ("iadd", "isub", "add", "subtract") and rx.random() < 0.5:
                st_["arg"] = {"be": "rel", "k": rx.randrange(nrel)}
        tail = [{"s": "iop", "op": rx.choice(("imul", "itruediv", "iadd")), "arg": 2.0}]
        if tail[0]["op"] == "iadd":
            tail[0]["arg"] = {"be": "rel", "k": 0}
        tail.append({"s": "iop", "op": rx.choice(("isub", "iadd")), "arg": {"be": "rel", "k": rx.randrange(nrel)}})
        if rx.random() < 0.5:
            g_ = rx.choice([n for d in range(2, dim + 1) for n in allnames[d]])
            tail.insert(rx.randrange(2), {"s": "set", "name": (rx.choice(C.SYN[g_]) if (mom and g_ in C.SYN and rx.random() < 0.5) else g_),
                                          "val": ({"$": "sym", "v": g_ + "r"} if be == "sym" else 1.5)})
        steps += tail
    return {"kind": "hist15", "seed": seed, "start": start, "steps": steps, "faults": flts}


# --------------------------------------------------------------------------- execution

def _decode_num(x):
    import numpy

    if isinstance(x, dict):
        t = x["$"]
        if t == "f64":
            return numpy.float64(x["v"])
        if t == "simfloat":
            return faults.SimFloat(x["v"])
        if t == "frac":
            import fractions

            return fractions.Fraction(x["v"][0], x["v"][1])
        if t == "dec":
            import decimal

            return decimal.Decimal(x["v"])
        if t == "sym":
            import sympy

            return sympy.Symbol(x["v"], real=True)
        if t == "symnum":
            import sympy

            return sympy.Rational(x["v"][0], x["v"][1])
    return x


def build(vector, spec):
    import numpy

    if spec["be"] == "scalar":
        return spec["v"]
    kw = {k: _decode_num(v) for k, v in spec["coords"].items()}
    dim = len(kw)
    if spec["be"] == "obj":
        return vector.obj(**kw)
    if spec["be"] == "sym":
        import sympy

        kw = {k: (v if isinstance(v, sympy.Basic) else sympy.Float(v)) for k, v in kw.items()}
        return getattr(vector, f"{'Momentum' if spec['mom'] else 'Vector'}Sympy{dim}D")(**kw)
    if spec["be"] == "np":
        return vector.array({k: numpy.array([float(v)]) for k, v in kw.items()})
    raise ValueError(spec["be"])


def stored(v):
    out = []
    for g in GROUPS:
        try:
            c = object.__getattribute__(v, g)
        except AttributeError:
            continue
        out.append((g, type(c).__name__, tuple(c.elements)))
    return out


def _bits(x):
    import numpy

    try:
        import sympy

        if isinstance(x, sympy.Basic):
            return ("sym", sympy.srepr(x))
    except ImportError:  # pragma: no cover
        pass
    if isinstance(x, (float, numpy.floating)):
        return (type(x).__name__, snapshot._fhex(x))
    if isinstance(x, (int, numpy.integer)) and not isinstance(x, bool):
        return (type(x).__name__, int(x))
    return (type(x).__name__, repr(x))


def _num(x):
    """The *number* a stored coordinate denotes (int 3, 3.0 and numpy.float64(3) read back "exactly" the same)."""
    import numpy

    if isinstance(x, bool):
        return ("bool", x)
    if isinstance(x, (int, numpy.integer)):
        return ("num", float(int(x)).hex()) if abs(int(x)) < 2 ** 53 else ("int", int(x))
    if isinstance(x, (float, numpy.floating)):
        return ("num", snapshot._fhex(x))
    return _bits(x)


def state_bits(v):
    return (id(v), type(v).__name__, tuple((g, cn, tuple(_bits(e) for e in els)) for g, cn, els in stored(v)))


def clone(v):
    kw = {g: object.__getattribute__(v, g) for g, _, _ in stored(v)}
    return type(v)(**kw)


def deepclone(v):
    """A vector with the same class and stored numbers that shares no coordinate object with `v`."""
    kw = {}
    for g, _, _ in stored(v):
        c = object.__getattribute__(v, g)
        kw[g] = type(c)(*c.elements)
    return type(v)(**kw)


def value_bits(v):
    return (type(v).__name__, tuple((g, cn, tuple(_bits(e) for e in els)) for g, cn, els in stored(v)))


def derive(v, how, a):
    import copy

    if how == "copy":
        return copy.copy(v)
    if how == "deepcopy":
        return copy.deepcopy(v)
    if how == "rotateZ":
        return v.rotateZ(a)
    if how == "rotateX":
        return v.rotateX(a)
    if how == "rotate_axis":
        return v.rotate_axis(v.to_Vector3D(), a)
    if how == "neg":
        return -v
    if how == "same":
        return to_system(v, [_suffix(cn) for _, cn, _ in stored(v)])
    if how == "ctor":
        return type(v)(**{g: object.__getattribute__(v, g) for g, _, _ in stored(v)})
    raise ValueError(how)


def _suffix(cn):
    for suf in ("RhoPhi", "XY", "Theta", "Eta", "Tau", "Z", "T"):
        if cn.endswith(suf):
            return suf
    raise ValueError(cn)


def to_system(vec, suffixes):
    names = "".join("".join({"XY": ("x", "y"), "RhoPhi": ("rho", "phi"), "Z": ("z",), "Theta": ("theta",), "Eta": ("eta",),
                             "T": ("t",), "Tau": ("tau",)}[s]) for s in suffixes)
    return getattr(vec, "to_" + names)()


def _num_close(a, b, angle=False):
    try:
        import sympy

        if isinstance(a, sympy.Basic) or isinstance(b, sympy.Basic):
            if a == b:
                return True
            d = sympy.simplify(a - b)
            if d == 0:
                return True
            syms = sorted(d.free_symbols, key=str)
            val = d.subs({s: sympy.Rational(3 + 2 * i, 7) for i, s in enumerate(syms)})
            try:
                return abs(complex(val)) < 1e-9
            except Exception:
                return False
    except ImportError:  # pragma: no cover
        pass
    try:
        a = float(a)
        b = float(b)
    except (TypeError, ValueError):
        return type(a) is type(b) and repr(a) == repr(b)  # non-numeric garbage in, same garbage out
    if a != a and b != b:
        return True
    if a == b:
        return True
    if math.isinf(a) or math.isinf(b):
        return False
    if angle:
        d = abs(a - b) % (2 * math.pi)
        d = min(d, 2 * math.pi - d)
        return d <= 1e-9
    return abs(a - b) <= 1e-12 * max(abs(a), abs(b)) + 1e-300


def _roughly(a, b, scale):
    """Derived coordinates may amplify a last-bit difference of the stored ones (cancellation in tau, eta near the
    axis): a stale or wrong value differs grossly, rounding does not."""
    try:
        a, b = float(a), float(b)
    except Exception:
        return False
    return abs(a - b) <= 1e-7 * max(abs(a), abs(b)) + 1e-7 * scale


def _both_nan(a, b):
    try:
        return float(a) != float(a) and float(b) != float(b)
    except Exception:
        return False


def _both_nonfinite(a, b):
    try:
        a, b = float(a), float(b)
    except Exception:
        return False
    return (a != a or math.isinf(a)) and (b != b or math.isinf(b))


def _viol(inv, aspect, step_i, step, detail):
    site = f"S:{step_i}:{step['s']}:{step.get('op') or step.get('name')}"
    return {"prop": "C15", "inv": inv, "aspect": aspect, "site": site, "pass": "hist", "detail": str(detail)[:600]}


def run_case(case, vector):
    import numpy
    import operator

    if any(f["seam"] == "lib" for f in case.get("faults", ())):
        faults.install_simlib(vector)
    viol = []
    stats = {"steps": 0, "raised": 0, "natural_exc": {}, "faults_planned": len(case.get("faults", ())),
             "faults_fired": {"lib": 0, "flt": 0, "alloc": 0}, "torn_checks": 0, "sys_switches": 0, "states": []}
    v = build(vector, case["start"])
    plan = {}
    for f in case.get("faults", ()):
        plan.setdefault(f["i"], {})[f["seam"]] = (f["n"], f["exc"])
    vid, vtype = id(v), type(v)
    rels = []      # (relative, a deep clone taken when it was made, its value bits then)
    stats["relatives"] = 0

    def _bystanders(i, st):
        for k_, (w_, _, bits_) in enumerate(rels):
            if w_ is None:
                continue
            now_ = value_bits(w_)
            if now_ != bits_:
                viol.append(_viol("I5", "relative-changed-by-update-of-target", i, st, f"relative {k_}: {_fmt((0,) + bits_)} -> {_fmt((0,) + now_)}"))
                rels[k_] = (w_, rels[k_][1], now_)     # report once

    for i, st in enumerate(case["steps"]):
        if i:
            _bystanders(i - 1, case["steps"][i - 1])
        stats["steps"] += 1
        if st["s"] == "derive":
            try:
                w_ = derive(v, st["how"], st["a"])
                if w_ is v:
                    # a same-system conversion may return the vector itself (an identity shortcut is legitimate): that is
                    # the target under another name, not a relative
                    rels.append((None, None, None))
                    continue
                rels.append((w_, deepclone(w_), value_bits(w_)))
                stats["relatives"] += 1
            except faults.CATCH as e:
                _nat(stats, e)
                rels.append((None, None, None))
            continue
        if isinstance(st.get("arg"), dict) and st["arg"].get("be") == "rel" and (st["arg"]["k"] >= len(rels) or rels[st["arg"]["k"]][0] is None):
            continue
        before = state_bits(v)
        before_sys = [cn for _, cn, _ in stored(v)]
        kind = st["s"]
        stats["states"].append(f"{vtype.__name__}|{'.'.join(_suffix(c) for c in before_sys)}|{kind}:{st.get('op') or st.get('name')}")
        ctx = faults.OpCtx(plan.get(i))
        if kind == "read":
            try:
                getattr(v, st["name"])
            except faults.CATCH as e:
                stats["raised"] += 1
                _nat(stats, e)
            if state_bits(v) != before:
                viol.append(_viol("I5", "read-changed-state", i, st, f"{before} -> {state_bits(v)}"))
            continue

        if kind == "set":
            name = st["name"]
            val = _decode_num(st["val"])
            gname, suffix = GROUP_OF[name]
            generic = C.GENERIC_OF.get(name, name)
            has_group = any(g == gname for g, _, _ in stored(v))
            is_coord = has_group and (name == generic or hasattr(type(v), name) and isinstance(getattr(type(v), name, None), property))
            partner_before = None
            partner_err = None
            if generic in PARTNER and has_group:
                try:
                    partner_before = getattr(v, PARTNER[generic])
                except faults.CATCH as e:  # the setter will hit the same error when it reads the partner
                    partner_err = e
            faults.set_ctx(ctx)
            try:
                setattr(v, name, val)
                exc = None
            except faults.CATCH as e:
                exc = e
            finally:
                faults.set_ctx(None)
            _fired(stats, ctx)
            if exc is not None:
                stats["raised"] += 1
                _nat(stats, exc)
                stats["torn_checks"] += 1
                if state_bits(v) != before:
                    viol.append(_viol("I5", "raised-but-changed", i, st, f"{type(exc).__name__}: {before} -> {state_bits(v)}"))
                continue
            if not is_coord:
                # assigning a name that is not a coordinate of this class must not touch the coordinates
                if state_bits(v) != before:
                    viol.append(_viol("I5", "noncoordinate-assignment-changed-state", i, st, f"{before} -> {state_bits(v)}"))
                continue
            after = stored(v)
            if id(v) != vid or type(v) is not vtype:
                viol.append(_viol("I5", "identity-or-class-changed", i, st, f"{vtype.__name__} -> {type(v).__name__}"))
            for (g, cn, els), (g0, cn0, els0) in zip(after, _unbits_groups(before)):
                if g != gname:
                    if (cn, tuple(_num(e) for e in els)) != (cn0, tuple(_renum(b) for b in els0)):
                        viol.append(_viol("I5", "other-group-changed", i, st, f"{g}: {cn0}{els0} -> {cn}{els}"))
                    continue
                if _suffix(cn) != suffix:
                    viol.append(_viol("I5", "wrong-coordinate-type-stored", i, st, f"{name} stored as {cn}"))
                    continue
                pos = POS.get(generic, 0)
                if _num(els[pos]) != _num(val):
                    viol.append(_viol("I5", "assigned-value-not-stored", i, st, f"{name}={val!r} stored {els[pos]!r}"))
                if generic in PARTNER and partner_err is None:
                    if _num(els[1 - pos]) != _num(partner_before):
                        viol.append(_viol("I5", "partner-changed", i, st, f"{PARTNER[generic]} was {partner_before!r} now {els[1 - pos]!r}"))
            try:
                rb = getattr(v, name)
                if _num(rb) != _num(val):
                    viol.append(_viol("I5", "readback-differs", i, st, f"{name}={val!r} reads {rb!r}"))
            except faults.CATCH as e:
                viol.append(_viol("I5", "readback-raises", i, st, f"{type(e).__name__}: {e}"))
            if [cn for _, cn, _ in after] != before_sys:
                stats["sys_switches"] += 1
            continue

        # ---- in-place operator / out= -------------------------------------------------
        opn = st["op"]
        snap0 = clone(v)
        def _operand(spec, for_functional):
            if isinstance(spec, dict) and spec.get("be") == "self":
                return snap0 if for_functional else v     # the functional twin works on the copy taken before the step
            if isinstance(spec, dict) and spec.get("be") == "rel":
                return rels[spec["k"]][1] if for_functional else rels[spec["k"]][0]   # the value it had when it was made
            return build(vector, spec) if isinstance(spec, dict) and "be" in spec else _decode_num(spec)

        if kind == "iop":
            arg = _operand(st["arg"], False)
            arg_before = state_bits(arg) if (hasattr(arg, "azimuthal") and not isinstance(arg, numpy.ndarray) and arg is not v) else None
            fn = {"iadd": operator.add, "isub": operator.sub, "imul": operator.mul, "itruediv": operator.truediv}[opn]
            ifn = getattr(operator, opn)
            func_args = (snap0, _operand(st["arg"], True) if isinstance(st["arg"], dict) and st["arg"].get("be") in ("self", "rel") else arg)
        else:
            uf = getattr(numpy, opn)
            if opn in ("add", "subtract"):
                a0 = _operand(st["arg0"], False)
                arg = _operand(st["arg"], False)
                func_args = (_operand(st["arg0"], True) if st["arg0"].get("be") == "self" else a0,
                             _operand(st["arg"], True) if isinstance(st["arg"], dict) and st["arg"].get("be") in ("self", "rel") else arg)
                live_args = (a0, arg)
            elif opn == "negative":
                a0 = build(vector, {**case["start"]}) if False else snap0
                arg = None
                func_args = (snap0,)
            else:
                arg = _decode_num(st["arg"])
                func_args = (snap0, arg)
            arg_before = None
            fn = uf
        # functional twin (no faults)
        exp_exc = None
        expected = None
        exact = False
        try:
            fres = fn(*func_args)
            if hasattr(fres, "azimuthal") and not isinstance(fres, numpy.ndarray) and type(fres).__module__ == type(v).__module__ \
                    and len(stored(fres)) == len(stored(v)):
                expected = to_system(fres, [_suffix(cn) for cn in before_sys])
                # where the functional result already is in the stored coordinate system no conversion (and so no
                # rounding) separates the two: "equals" is then equality of the numbers, not closeness
                exact = [cn for _, cn, _ in stored(fres)] == before_sys
            elif not (hasattr(fres, "azimuthal") and type(fres).__module__ == type(v).__module__):
                exp_exc = TypeError("functional result is not a single vector of this backend")
            else:
                exp_exc = "dimension"
        except faults.CATCH as e:
            exp_exc = e
        faults.set_ctx(ctx)
        try:
            if kind == "iop":
                res = ifn(v, arg)
            else:
                if opn in ("add", "subtract"):
                    res = fn(*live_args, out=(v,))     # the real call may have v itself among its inputs
                else:
                    res = fn(*func_args, out=(v,)) if opn != "negative" else fn(snap0, out=(v,))
            exc = None
        except faults.CATCH as e:
            exc = e
            res = None
        finally:
            faults.set_ctx(None)
        _fired(stats, ctx)
        injected = any(fk[3] != "Reenter" for fk in ctx.fired)
        if exc is not None:
            stats["raised"] += 1
            _nat(stats, exc)
            stats["torn_checks"] += 1
            if state_bits(v) != before:
                if exp_exc == "dimension":
                    pass  # out= with a result of another dimension: outside the property's statement
                else:
                    viol.append(_viol("I5", "raised-but-changed", i, st,
                                      f"{type(exc).__name__}: {str(exc)[:80]}; {_fmt(before)} -> {_fmt(state_bits(v))}"))
            if exp_exc is None and not injected:
                viol.append(_viol("I5", "inplace-raises-functional-ok", i, st, f"{type(exc).__name__}: {str(exc)[:120]}"))
            continue
        # completed
        if exp_exc == "dimension":
            continue
        if exp_exc is not None:
            viol.append(_viol("I5", "functional-raises-inplace-ok", i, st, f"functional: {type(exp_exc).__name__}: {str(exp_exc)[:120]}"))
            continue
        if kind == "iop" and res is not v:
            viol.append(_viol("I5", "inplace-returned-other-object", i, st, f"{type(res).__name__}"))
            if hasattr(res, "azimuthal"):
                v = v  # keep following the original object: the property is about it
        if id(v) != vid or type(v) is not vtype:
            viol.append(_viol("I5", "identity-or-class-changed", i, st, f"{vtype.__name__} -> {type(v).__name__}"))
        after = stored(v)
        if [cn for _, cn, _ in after] != before_sys:
            viol.append(_viol("I5", "coordinate-system-changed", i, st, f"{before_sys} -> {[cn for _, cn, _ in after]}"))
            continue
        exp = stored(expected)
        for (g, cn, els), (_, _, xels) in zip(after, exp):
            for q, (a, b) in enumerate(zip(els, xels)):
                if exact and _num(a) != _num(b) and not _both_nan(a, b):
                    viol.append(_viol("I5", "inplace-not-equal-to-functional", i, st, f"{g}[{q}]: in-place {a!r} functional {b!r} (same system, no conversion)"))
                elif not _num_close(a, b, angle=(_suffix(cn) == "RhoPhi" and q == 1)):
                    viol.append(_viol("I5", "inplace-differs-from-functional", i, st, f"{g}[{q}]: in-place {a!r} functional {b!r}"))
        # every coordinate *getter* (stored or derived) must agree with the functional result too: a derived value
        # memoised before the update must not survive it
        try:
            scale_ = max([1.0] + [abs(float(e)) for _, _, els in after for e in els if abs(float(e)) < 1e300])
        except Exception:
            scale_ = 1.0
        for d_ in range(2, len(after) + 2):
            for nm in ALLNAMES[d_]:
                try:
                    gv, ge = getattr(v, nm), getattr(expected, nm)
                except Exception:
                    continue
                if not _num_close(gv, ge, angle=(nm == "phi")) and not _both_nonfinite(gv, ge) and not _roughly(gv, ge, scale_):
                    # theta / eta / tau of the functional twin may legitimately differ by rounding only
                    viol.append(_viol("I5", "getter-differs-from-functional", i, st, f"{nm}: in-place {gv!r} functional {ge!r}"))
        if arg_before is not None and state_bits(arg) != arg_before:
            viol.append({"prop": "C16", "inv": "I2", "aspect": "vobj:operand-of-inplace", "site": f"S:{i}:{kind}:{opn}", "pass": "hist",
                         "detail": "right-hand operand modified"})
    if case["steps"]:
        _bystanders(len(case["steps"]) - 1, case["steps"][-1])
    stats["final"] = [cn for _, cn, _ in stored(v)]
    stats["ops"] = stats["steps"]
    stats["cells"] = sorted(stats.pop("states"))
    stats["nontrivial"] = bool(stats["raised"] or sum(stats["faults_fired"].values()) or stats["sys_switches"] or stats["steps"] >= 2)
    stats["extra"] = {"torn_checks": stats["torn_checks"], "sys_switches": stats["sys_switches"], "relatives": stats.pop("relatives")}
    return {"viol": viol, "stats": stats}


def _renum(b):
    """_bits tuple -> _num tuple (for comparing a state recorded earlier with numbers read now)."""
    t, v = b
    if t in ("float", "float64", "float32", "SimFloat"):
        return ("num", v)
    if t in ("int", "int64", "int32") and isinstance(v, int):
        return ("num", float(v).hex()) if abs(v) < 2 ** 53 else ("int", v)
    return b


def _fmt(bits):
    return f"{bits[1]}{[(cn, [b[1] for b in els]) for _, cn, els in bits[2]]}"


def _unbits_groups(before):
    return before[2]


def _fired(stats, ctx):
    for fk in ctx.fired:
        stats["faults_fired"][fk[0]] += 1
        if fk[3] == "SimCancel":
            stats["faults_fired"]["cancel"] = stats["faults_fired"].get("cancel", 0) + 1
        if fk[3] == "Reenter":
            stats["faults_fired"]["reenter"] = stats["faults_fired"].get("reenter", 0) + 1


def _nat(stats, e):
    if not getattr(e, "vecsim_injected", False):
        n = type(e).__name__
        stats["natural_exc"][n] = stats["natural_exc"].get(n, 0) + 1
