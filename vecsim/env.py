"""Process set-up: make sure the working tree of /repo is what gets imported,
pin hash seed / BLAS threads (re-exec), and warm every lazily imported module."""

from __future__ import annotations

import os
import sys

REPO = os.environ.get("VECSIM_REPO", "/repo")
SRC = os.path.join(REPO, "src")
VECTOR_DIR = os.path.join(SRC, "vector")
VERIF = os.path.dirname(os.path.dirname(os.path.abspath(__file__)))

_PINNED = {
    "PYTHONHASHSEED": "0",
    "OPENBLAS_NUM_THREADS": "1",
    "OMP_NUM_THREADS": "1",
    "MKL_NUM_THREADS": "1",
    "NUMBA_NUM_THREADS": "1",
    "PYTHONDONTWRITEBYTECODE": "1",
}


def reexec_pinned(argv=None):
    """Re-exec the interpreter once so hash order and thread pools are pinned.

    VECSIM_HASHSEED overrides the hash seed (used by the determinism self-test)."""
    want = dict(_PINNED)
    if "VECSIM_HASHSEED" in os.environ:
        want["PYTHONHASHSEED"] = os.environ["VECSIM_HASHSEED"]
    if all(os.environ.get(k) == v for k, v in want.items()):
        return
    env = dict(os.environ)
    env.update(want)
    argv = argv or sys.argv
    os.execve(sys.executable, [sys.executable, "-m", "vecsim.cli", *argv[1:]], env)


def setup_path():
    if sys.path[0] != SRC:
        sys.path.insert(0, SRC)
    if VERIF not in sys.path:
        sys.path.insert(1, VERIF)


_warm = False


def warm(numba=False):
    """Import vector and everything it imports lazily, from the working tree."""
    global _warm
    setup_path()
    import importlib
    import pkgutil

    if "vector" not in sys.modules:
        from . import sched as _sched

        _sched.install_lock_seam()   # locks created by vector code become scheduler-aware
    import vector

    here = os.path.realpath(vector.__file__)
    if not here.startswith(os.path.realpath(SRC)):
        raise RuntimeError(f"vector imported from {here}, expected under {SRC}")
    if _warm:
        return vector
    import vector._compute

    for m in pkgutil.walk_packages(vector._compute.__path__, "vector._compute."):
        importlib.import_module(m.name)
    import vector.backends.awkward  # noqa: F401
    import vector.backends.awkward_constructors  # noqa: F401
    import vector.backends.numpy  # noqa: F401
    import vector.backends.object  # noqa: F401
    import vector.backends.sympy  # noqa: F401

    if numba:
        import vector.backends._numba_object  # noqa: F401
        import vector.backends.numba_numpy  # noqa: F401
    _warm = True
    return vector


def warm_third_party():
    """Exercise numpy / awkward / sympy *without any vector code*, so forked children do not
    each pay their lazy imports.  No vector-owned state is touched: the parent stays pristine."""
    import copy
    import pickle

    import awkward as ak
    import numpy as np
    import sympy

    a = ak.Array([[{"x": 1.0, "y": 2.0}], []])
    b = ak.zip({"x": a.x, "y": a.y}, with_name="VecsimWarm")
    _ = a.x + a.y
    for f in (np.sqrt, np.nan_to_num, np.absolute, np.sin, np.cos, np.exp, np.arctan, np.sinh, np.arcsinh, np.sign, np.log1p):
        f(a.x)
    for f in (np.arctan2, np.maximum, np.minimum, np.copysign, np.isclose, np.equal):
        f(a.x, a.y)
    ak.to_list(b); ak.to_buffers(b); ak.sum(a.x, axis=-1); ak.count(a.x, axis=None); repr(a); str(a.type)
    a[0]; a[0, 0]; ak.broadcast_arrays(a.x, 1.0); ak.with_name(a, "VecsimWarm2"); ak.Array([{"x": 1.0}, None])
    ak.flatten(a); ak.num(a); ak.fields(a); pickle.loads(pickle.dumps(a)); copy.deepcopy(a); ak.is_none(a)
    ak.count_nonzero(a.x, axis=None); ak.Array([1.0])[0]; ak.Record({"x": 1.0})
    s = np.array([(1.0, 2.0)], dtype=[("x", "f8"), ("y", "f8")])
    s["x"]; repr(s); pickle.loads(pickle.dumps(s)); np.empty((2,), dtype=s.dtype); copy.deepcopy(s)
    x, y = sympy.symbols("x y", real=True)
    sympy.sqrt(x**2 + y**2); sympy.atan2(y, x); sympy.srepr(x + y); sympy.cos(x) * sympy.sin(y); sympy.Abs(x)


def tree_hash():
    """Content hash of /repo/src/vector (goes into replay files and evidence)."""
    import hashlib

    h = hashlib.sha256()
    for root, dirs, files in os.walk(VECTOR_DIR):
        dirs.sort()
        if "__pycache__" in dirs:
            dirs.remove("__pycache__")
        for f in sorted(files):
            if f.endswith(".py"):
                p = os.path.join(root, f)
                h.update(os.path.relpath(p, VECTOR_DIR).encode())
                with open(p, "rb") as fh:
                    h.update(fh.read())
    return h.hexdigest()[:16]
