"""Seeded baton-passing scheduler over real threads.

Exactly one simulated thread is runnable at any time.  Pre-emption points are
sys.monitoring LINE events of code objects under /repo/src/vector (plus op
boundaries); at each point the policy - driven only by a random.Random derived
from the run seed, or by an explicit switch list when replaying - decides who
runs next.  The scheduler never reads a clock and never iterates a set.
"""

from __future__ import annotations

import builtins
import hashlib
import os
import sys
import threading

from . import env

mon = sys.monitoring
TOOL = 4
_LINE = mon.events.LINE
_PY_START = mon.events.PY_START
_PY_RETURN = mon.events.PY_RETURN

K_LINE, K_OP, K_CALL, K_RET, K_FIN = 0, 1, 2, 3, 4


class Stall(Exception):
    pass


# ---------------------------------------------------------------------------
# Locks created by vector code are intercepted (a synchronisation point the scheduler owns): a simulated
# thread that finds the lock held by a *parked* thread does not block for real - it hands the baton on
# and retries when it is scheduled again.  Outside a simulation, and for every other caller, they are
# plain locks.
# ---------------------------------------------------------------------------
_ACTIVE = [None]          # the running Scheduler, if any
_real_lock = threading.Lock
_real_rlock = threading.RLock
K_BLOCK = 5


class SimLock:
    def __init__(self, reentrant=False):
        self._l = _real_lock()
        self._reentrant = reentrant
        self._owner = None     # (ident) of the holder
        self._count = 0

    def acquire(self, blocking=True, timeout=-1):
        me = threading.get_ident()
        if self._reentrant and self._owner == me:
            self._count += 1
            return True
        sch = _ACTIVE[0]
        k = sch.tids.get(me) if sch is not None else None
        if k is None:
            ok = self._l.acquire(blocking, timeout) if timeout != -1 else self._l.acquire(blocking)
            if ok:
                self._owner, self._count = me, 1
            return ok
        while True:
            if self._l.acquire(False):
                self._owner, self._count = me, 1
                return True
            if not blocking:
                return False
            sch.lock_wait(k, sch.tids.get(self._owner), self._reentrant)

    def release(self):
        if self._reentrant and self._count > 1:
            self._count -= 1
            return
        self._owner, self._count = None, 0
        self._l.release()

    def locked(self):
        return self._l.locked()

    def __enter__(self):
        self.acquire()
        return self

    def __exit__(self, *a):
        self.release()

    # used by threading.Condition when handed an RLock-like object
    def _is_owned(self):
        return self._owner == threading.get_ident()

    def _release_save(self):
        c = self._count
        self._owner, self._count = None, 0
        self._l.release()
        return c

    def _acquire_restore(self, c):
        self.acquire()
        self._count = c


class SimCondition:
    """threading.Condition for vector callers: waiting is a scheduling point, never a real block."""

    def __init__(self, lock=None):
        self._lock = lock if lock is not None else SimLock(reentrant=True)
        self._waiters = []
        self.acquire = self._lock.acquire
        self.release = self._lock.release

    def __enter__(self):
        self._lock.acquire()
        return self

    def __exit__(self, *a):
        self._lock.release()

    def _save(self):
        if hasattr(self._lock, "_release_save"):
            return self._lock._release_save()
        self._lock.release()
        return None

    def _restore(self, saved):
        if hasattr(self._lock, "_acquire_restore"):
            self._lock._acquire_restore(saved)
        else:
            self._lock.acquire()

    def wait(self, timeout=None):
        tok = [False]
        self._waiters.append(tok)
        saved = self._save()
        try:
            _sim_wait(lambda: tok[0], timeout)
        finally:
            self._restore(saved)
            if tok in self._waiters:
                self._waiters.remove(tok)
        return tok[0]

    def wait_for(self, predicate, timeout=None):
        result = predicate()
        while not result:
            if not self.wait(timeout) and timeout is not None:
                return predicate()
            result = predicate()
        return result

    def notify(self, n=1):
        for tok in self._waiters[:n]:
            tok[0] = True
        del self._waiters[:n]

    def notify_all(self):
        self.notify(len(self._waiters))


class SimEvent:
    def __init__(self):
        self._flag = False

    def is_set(self):
        return self._flag

    def set(self):
        self._flag = True

    def clear(self):
        self._flag = False

    def wait(self, timeout=None):
        _sim_wait(lambda: self._flag, timeout)
        return self._flag


def _sim_wait(done, timeout):
    """Wait until done() - by yielding the baton when called from a simulated thread, by polling otherwise."""
    import time as _t

    me = threading.get_ident()
    sch = _ACTIVE[0]
    k = sch.tids.get(me) if sch is not None else None
    if k is None:
        t0 = _t.monotonic()
        while not done():
            if timeout is not None and _t.monotonic() - t0 >= timeout:
                return
            _t.sleep(0.0005)
        return
    sch.waiting.add(k)
    try:
        while not done():
            if not sch.cond_wait(k):
                if timeout is not None:
                    return          # nobody left who could wake us: the timeout elapses
                sch.deadlocks.append((k, None, sch.opidx[k]))
                raise RuntimeError("vecsim: deadlock - waiting for a notification nobody is left to send")
    finally:
        sch.waiting.discard(k)


def _cond_factory(real, sim):
    def make(*a, **kw):
        try:
            mod = sys._getframe(1).f_globals.get("__name__", "")
        except Exception:
            mod = ""
        if mod == "vector" or mod.startswith("vector."):
            return sim(*a, **kw)
        return real(*a, **kw)

    make._vecsim = True
    return make


def _lock_factory(real, reentrant):
    def make(*a, **kw):
        try:
            mod = sys._getframe(1).f_globals.get("__name__", "")
        except Exception:
            mod = ""
        if mod == "vector" or mod.startswith("vector."):
            return SimLock(reentrant)
        return real(*a, **kw)

    return make


def install_lock_seam():
    """Must run before vector is imported (module-level locks are created at import)."""
    if getattr(threading.Lock, "_vecsim", False):
        return
    f1 = _lock_factory(_real_lock, False)
    f2 = _lock_factory(_real_rlock, True)
    f1._vecsim = f2._vecsim = True
    threading.Lock = f1
    threading.RLock = f2
    threading.Condition = _cond_factory(threading.Condition, SimCondition)
    threading.Event = _cond_factory(threading.Event, SimEvent)


_vec_cache: dict = {}
_VDIR = os.path.realpath(env.VECTOR_DIR) + os.sep


def is_vec(code) -> bool:
    r = _vec_cache.get(code)
    if r is None:
        fn = code.co_filename
        r = fn.startswith(_VDIR) or os.path.realpath(fn).startswith(_VDIR)
        _vec_cache[code] = r
    return r


def relloc(code, line):
    fn = code.co_filename
    if fn.startswith(_VDIR):
        fn = fn[len(_VDIR):]
    return f"{fn}:{line}"


class Policy:
    """kind: serial | opgran | walk | rr | pct | sites | parkop | explicit

    parkop: when the running thread reaches a shared-state site it is parked there while another thread runs
    one *whole* operation (to its next op boundary), then it resumes: "the other thread's call falls entirely
    inside my window", for every window."""

    def __init__(self, kind="serial", rng=None, p=0.1, q=50, d=2, est=2000,
                 sites=None, order=None, explicit=None, domain="line"):
        self.kind = kind
        self.rng = rng
        self.p = p
        self.q = q
        self.d = d
        self.est = max(est, 10)
        self.sites = sites or frozenset()
        self.order = order
        self.explicit = list(explicit or [])
        self.xi = 0
        self.diverged = False
        self.domain = domain
        self.prio = None
        self.change = None
        self.host = None    # parkop: thread parked at a site
        self.guest = None   # parkop: thread running one whole op meanwhile

    def needs_events(self):
        if self.kind in ("serial", "opgran"):
            return 0
        ev = _LINE
        if self.domain == "line+call":
            ev |= _PY_START | _PY_RETURN
        return ev

    def describe(self):
        d = {"kind": self.kind}
        if self.kind in ("walk", "sites", "opgran", "parkop"):
            d["p"] = self.p
        if self.kind == "rr":
            d["q"] = self.q
        if self.kind == "pct":
            d["d"] = self.d
        if self.kind == "serial":
            d["order"] = self.order
        d["domain"] = self.domain
        return d

    def start(self, sched):
        n = sched.n
        if self.kind == "pct":
            perm = list(range(n))
            self.rng.shuffle(perm)
            # higher number = higher priority
            self.prio = {t: self.d + i for i, t in enumerate(perm)}
            self.change = sorted(self.rng.randrange(1, self.est) for _ in range(max(self.d - 1, 0)))
            self.nchanged = 0
        if self.kind == "serial":
            if self.order is None:
                self.order = list(range(n))

    def first(self, sched):
        if self.kind == "explicit":
            return self._explicit_next(sched, K_FIN, None)
        if self.kind == "serial":
            return self.order[0]
        if self.kind == "pct":
            return max(range(sched.n), key=lambda t: self.prio[t])
        if self.kind == "rr":
            return 0
        return self.rng.randrange(sched.n)

    def _others(self, sched, k):
        return [j for j in range(sched.n) if j != k and not sched.finished[j] and j not in sched.blocked]

    def _explicit_next(self, sched, kind, k):
        if self.xi < len(self.explicit):
            pt, to, fin = self.explicit[self.xi]
            if kind == K_FIN:
                # a finish (or the start) consumes the next finish entry
                if fin:
                    self.xi += 1
                    if 0 <= to < sched.n and not sched.finished[to] and to != k:
                        return to
                self.diverged = True
            elif fin:
                return None
            else:
                if pt == sched.npoints:
                    self.xi += 1
                    if 0 <= to < sched.n and not sched.finished[to]:
                        return to
                    self.diverged = True
                elif pt < sched.npoints:
                    # missed: schedule no longer lines up with the code path
                    self.diverged = True
                    self.xi += 1
                return None
        if kind == K_FIN:
            o = self._others(sched, k)
            return o[0] if o else None
        return None

    def decide(self, sched, k, kind, loc):
        """Return thread to run next (None = keep running k)."""
        kd = self.kind
        if kd == "explicit":
            return self._explicit_next(sched, kind, k)
        if kd == "serial":
            return None
        others = self._others(sched, k)
        if not others:
            return None
        if kd == "opgran":
            if kind == K_OP and self.rng.random() < self.p:
                return others[self.rng.randrange(len(others))]
            return None
        if kd == "walk":
            if self.rng.random() < self.p:
                return others[self.rng.randrange(len(others))]
            return None
        if kd == "rr":
            if sched.npoints % self.q == 0:
                for j in range(1, sched.n + 1):
                    t = (k + j) % sched.n
                    if t != k and not sched.finished[t]:
                        return t
            return None
        if kd == "parkop":
            if self.guest is not None:
                if k == self.guest and kind == K_OP:
                    h, self.host, self.guest = self.host, None, None
                    if h is not None and not sched.finished[h]:
                        return h
                return None
            if kind == K_LINE and loc in self.sites and self.rng.random() < self.p:
                self.host, self.guest = k, others[self.rng.randrange(len(others))]
                return self.guest
            return None
        if kd == "sites":
            if kind == K_LINE and loc in self.sites and self.rng.random() < self.p:
                return others[self.rng.randrange(len(others))]
            if kind == K_OP and self.rng.random() < 0.05:
                return others[self.rng.randrange(len(others))]
            return None
        if kd == "pct":
            while self.nchanged < len(self.change) and self.change[self.nchanged] <= sched.npoints:
                # lower the running thread below every initial priority
                self.prio[k] = self.d - 1 - self.nchanged
                self.nchanged += 1
            best = max([k] + others, key=lambda t: self.prio[t])
            return best if best != k else None
        raise ValueError(kd)

    def after_finish(self, sched, k):
        others = self._others(sched, k)
        if not others:
            return None
        kd = self.kind
        if kd == "parkop":
            h, g = self.host, self.guest
            self.host, self.guest = None, None
            if g == k and h is not None and not sched.finished[h]:
                return h
        if kd == "explicit":
            return self._explicit_next(sched, K_FIN, k)
        if kd == "serial":
            for t in self.order:
                if not sched.finished[t] and t != k:
                    return t
            return others[0]
        if kd == "pct":
            return max(others, key=lambda t: self.prio[t])
        if kd == "rr":
            for j in range(1, sched.n + 1):
                t = (k + j) % sched.n
                if t != k and not sched.finished[t]:
                    return t
        return others[self.rng.randrange(len(others))]


class Scheduler:
    def __init__(self, n, policy, cap=200_000, observer=None, observe_at=(),
                 on_quiescent=None, observe_sites=frozenset(), observe_every=1):
        self.n = n
        self.policy = policy
        self.cap = cap
        self.sems = [threading.Semaphore(0) for _ in range(n)]
        self.ready = threading.Semaphore(0)
        self.done = threading.Semaphore(0)
        self.finished = [False] * n
        self.in_op = [False] * n
        self.opidx = [-1] * n
        self.atomic = [0] * n
        self.tids: dict = {}
        self.npoints = 0
        self.nswitch = 0
        self.nswitch_inop = 0
        self.capped = False
        self.current = None      # thread that holds the baton
        self.unblocked = 0       # times a thread blocked on something a parked thread held (recovery, see run())
        self.blocked = set()     # threads sitting in a real blocking call (never chosen as switch targets)
        self.nlockwaits = 0
        self.deadlocks = []
        self.waiting = set()
        self.nops_done = 0
        self.trace: list = []
        self.errors: list = []
        self.observer = observer
        self.observe_at = sorted(set(observe_at))
        self._oi = 0
        self.on_quiescent = on_quiescent
        self.unblock_after_s = 8.0
        self.observe_sites = observe_sites
        self.observe_every = max(int(observe_every), 1)
        self._site_hits = 0
        self._pending = [False] * n
        self.nquiescent = 0
        self.nobserved = 0
        self._hash = hashlib.sha256()

    # ---- monitoring callbacks (run in whichever thread executes the code) ----
    def _cb_line(self, code, line):
        if not is_vec(code):
            return mon.DISABLE
        k = self.tids.get(threading.get_ident())
        if k is None or self.atomic[k]:
            return None
        self.point(k, K_LINE, relloc(code, line))
        return None

    def _cb_start(self, code, offset):
        if not is_vec(code):
            return mon.DISABLE
        k = self.tids.get(threading.get_ident())
        if k is None or self.atomic[k]:
            return None
        self.point(k, K_CALL, relloc(code, code.co_firstlineno))
        return None

    def _cb_return(self, code, offset, retval):
        if not is_vec(code):
            return mon.DISABLE
        k = self.tids.get(threading.get_ident())
        if k is None or self.atomic[k]:
            return None
        self.point(k, K_RET, relloc(code, code.co_firstlineno))
        return None

    # ---- pre-emption ----
    def point(self, k, kind, loc):
        if k in self.blocked:
            self.blocked.discard(k)   # it got what it was waiting for
        if self.current != k and self.current is not None:
            # this thread was blocked in a real primitive, the baton went to another thread meanwhile (recovery):
            # wait here until the scheduler hands the baton back
            self.sems[k].acquire()
        self.npoints += 1
        if self.npoints > self.cap:
            self.capped = True
            return
        if self._pending[k]:
            # the line of a candidate operand mutation has just executed in this thread: look at the operands now
            self._pending[k] = False
            if self.observer is not None:
                self.nobserved += 1
                try:
                    self.observer(k, kind, "after:" + str(loc))
                except BaseException as e:
                    self.errors.append(f"observer: {type(e).__name__}: {e}")
        if kind == K_LINE and loc in self.observe_sites:
            self._site_hits += 1
            if self._site_hits % self.observe_every == 0:
                self._pending[k] = True
        if self._oi < len(self.observe_at) and self.observe_at[self._oi] <= self.npoints:
            while self._oi < len(self.observe_at) and self.observe_at[self._oi] <= self.npoints:
                self._oi += 1
            if self.observer is not None:
                self.nobserved += 1
                try:
                    self.observer(k, kind, loc)
                except BaseException as e:  # harness bug, never swallow silently
                    self.errors.append(f"observer: {type(e).__name__}: {e}")
        nxt = self.policy.decide(self, k, kind, loc)
        if nxt is None or nxt == k:
            return
        self._switch(k, nxt, kind, loc)

    def _switch(self, k, nxt, kind, loc):
        self.nswitch += 1
        if self.in_op[k]:
            self.nswitch_inop += 1
        ent = (self.npoints, k, nxt, kind, loc, self.opidx[k])
        self.trace.append(ent)
        self._hash.update(repr(ent[1:]).encode())
        self.current = nxt
        self.sems[nxt].release()
        self.sems[k].acquire()

    def lock_wait(self, k, owner, reentrant=False):
        """Thread k wants a lock a parked thread holds: a scheduling point at which k *must* yield."""
        self.npoints += 1
        self.nlockwaits += 1
        others = [j for j in range(self.n) if j != k and not self.finished[j] and j not in self.blocked]
        if owner is not None and self.finished[owner] and not others:
            # held by a simulated thread that has run to completion, and nobody is left who could release it:
            # this wait can never end (a lock leaked on some path)
            self.deadlocks.append((k, owner, self.opidx[k]))
            raise RuntimeError(f"vecsim: deadlock - lock still held by finished thread {owner}")
        if owner is not None and self.finished[owner] and reentrant:
            # a re-entrant lock can only be released by its owner, which is gone
            self.deadlocks.append((k, owner, self.opidx[k]))
            raise RuntimeError(f"vecsim: deadlock - re-entrant lock still held by finished thread {owner}")
        if not others:
            import time as _t

            _t.sleep(0.01)   # the holder is not a simulated thread: plain waiting
            return
        nxt = owner if owner in others else others[0]
        self._switch(k, nxt, K_BLOCK, "lock")

    def cond_wait(self, k):
        """Thread k waits for a notification: yield to a thread that is not itself waiting.  False if there is none."""
        self.npoints += 1
        self.nlockwaits += 1
        others = [j for j in range(self.n) if j != k and not self.finished[j] and j not in self.blocked]
        active = [j for j in others if j not in self.waiting]
        if not active:
            if others:
                # only waiters left besides us: let them re-check once (a notification may just have been sent)
                self._spins = getattr(self, "_spins", 0) + 1
                if self._spins < 4 * self.n:
                    self._switch(k, others[0], K_BLOCK, "wait")
                    return True
            self._spins = 0
            return False
        self._spins = 0
        self._switch(k, active[0], K_BLOCK, "wait")
        return True

    def op_begin(self, k, i):
        self.opidx[k] = i
        self.in_op[k] = True

    def op_end(self, k, i):
        self.in_op[k] = False
        self.nops_done += 1
        if self.on_quiescent is not None and not any(self.in_op):
            self.nquiescent += 1
            try:
                self.on_quiescent(k)
            except BaseException as e:
                self.errors.append(f"quiescent: {type(e).__name__}: {e}")
        self.point(k, K_OP, f"op:{k}:{i}")

    def _finish(self, k):
        self.finished[k] = True
        self.in_op[k] = False
        nxt = self.policy.after_finish(self, k)
        if nxt is None and self.blocked:
            # only threads sitting in a blocking call remain: the first one to come back owns the baton
            self.current = min(self.blocked)
            return
        if nxt is None:
            self.done.release()
        else:
            ent = (self.npoints, k, nxt, K_FIN, "fin", self.opidx[k])
            self.trace.append(ent)
            self._hash.update(repr(ent[1:]).encode())
            self.current = nxt
            self.sems[nxt].release()

    def _thread_main(self, k, body):
        self.tids[threading.get_ident()] = k
        self.ready.release()
        self.sems[k].acquire()
        try:
            body(k)
        except BaseException as e:
            import traceback

            self.errors.append(f"thread {k}: {type(e).__name__}: {e}\n{traceback.format_exc()}")
        finally:
            self._finish(k)

    def run(self, body, watchdog_s=60.0):
        """body(k) runs thread k's program and must call op_begin/op_end."""
        threads = [
            threading.Thread(target=self._thread_main, args=(k, body), name=f"sim-{k}", daemon=True)
            for k in range(self.n)
        ]
        for t in threads:
            t.start()
        for _ in threads:
            self.ready.acquire()
        self.policy.start(self)
        ev = self.policy.needs_events()
        orig_import = builtins.__import__
        tids, atomic = self.tids, self.atomic

        def _imp(*a, **kw):
            k = tids.get(threading.get_ident())
            if k is None:
                return orig_import(*a, **kw)
            atomic[k] += 1
            try:
                return orig_import(*a, **kw)
            finally:
                atomic[k] -= 1

        if ev:
            try:
                mon.use_tool_id(TOOL, "vecsim")
            except ValueError:
                pass
            mon.register_callback(TOOL, _LINE, self._cb_line)
            if ev & _PY_START:
                mon.register_callback(TOOL, _PY_START, self._cb_start)
                mon.register_callback(TOOL, _PY_RETURN, self._cb_return)
            builtins.__import__ = _imp
            mon.set_events(TOOL, ev)
        _ACTIVE[0] = self
        try:
            first = self.policy.first(self)
            self.trace.append((0, -1, first, K_FIN, "start", -1))
            self._hash.update(repr((-1, first)).encode())
            self.current = first
            self.sems[first].release()
            # Wait for completion.  If nothing at all happens for a long while although threads are parked, the
            # baton holder is blocked in a real primitive (a lock, a queue) that a *parked* thread holds - an
            # artefact of baton passing, not of the code under test.  Recovery: hand the baton to a parked
            # thread; the blocked one parks itself at its next pre-emption point (see point()).
            ok = False
            waited = 0.0
            last = (-1, -1)
            idle = 0.0
            step = 2.0
            while waited < watchdog_s:
                if self.done.acquire(timeout=step):
                    ok = True
                    break
                waited += step
                prog = (self.npoints, self.nops_done)
                if prog != last:
                    last = prog
                    idle = 0.0
                    continue
                idle += step
                if idle >= self.unblock_after_s:
                    cand = [j for j in range(self.n) if not self.finished[j] and j != self.current and j not in self.blocked]
                    if cand:
                        self.blocked.add(self.current)
                        cand.sort(key=lambda j: (not self.in_op[j], j))
                        nxt = cand[0]
                        self.unblocked += 1
                        self.trace.append((self.npoints, self.current, nxt, K_FIN, "unblock", -1))
                        self.current = nxt
                        self.sems[nxt].release()
                        idle = 0.0
        finally:
            _ACTIVE[0] = None
            if ev:
                mon.set_events(TOOL, 0)
                builtins.__import__ = orig_import
                mon.register_callback(TOOL, _LINE, None)
                if ev & _PY_START:
                    mon.register_callback(TOOL, _PY_START, None)
                    mon.register_callback(TOOL, _PY_RETURN, None)
        if not ok:
            raise Stall(f"no completion within {watchdog_s}s; finished={self.finished} points={self.npoints}")
        for t in threads:
            t.join(5)

    def switch_list(self):
        """Explicit schedule actually taken: [[point index, next thread, is-finish-pick]]."""
        return [[e[0], e[2], 1 if e[3] == K_FIN else 0] for e in self.trace if e[3] != K_BLOCK and e[4] != "unblock"]

    def digest(self):
        return self._hash.hexdigest()[:16]
