"""Fault seams.

* SimLib   - forwarding proxy placed on the documented ``lib`` class attribute
             (one proxy per real library, so ``_lib_of``'s compatibility test is
             unchanged).  Counts calls per (thread, op) and raises at the planned one.
* SimFloat - a float whose arithmetic dunders count and raise at the planned one
             (object vectors accept any numbers.Real).
* the fault plan is keyed to a thread's *logical* position (thread, op index,
  seam, n-th call), never to wall time or a global step.
"""

from __future__ import annotations

import threading

class SimCancel(BaseException):
    """A cancellation / interrupt delivered at a fault point: like KeyboardInterrupt it is *not* an Exception, so
    clean-up written as ``except Exception: restore(); raise`` does not see it (``finally`` / ``with`` do)."""


CATCH = (Exception, SimCancel)

EXC = {
    "SimCancel": SimCancel,
    "FloatingPointError": FloatingPointError,
    "MemoryError": MemoryError,
    "OverflowError": OverflowError,
    "ZeroDivisionError": ZeroDivisionError,
}


class SimFaultMixin:
    """Marker: exceptions raised by the injector carry .vecsim_injected = True."""


def _reenter():
    """A user callback (a coordinate's arithmetic, a lib function, an allocator hook) that itself evaluates vector
    operations - under its own, properly scoped, floating-point error handling - before the outer operation goes on.
    Legal re-entrancy: the outer call must neither notice nor leak anything."""
    import sys

    import numpy

    vector = sys.modules.get("vector")
    if vector is None:
        return
    ctx = getattr(_tls, "ctx", None)
    _tls.ctx = None                      # nothing is counted or injected inside the nested calls
    try:
        with numpy.errstate(divide="raise", over="print", under="warn", invalid="call"):
            w = vector.obj(x=3.0, y=4.0, z=12.0)
            w.rho, w.phi, w.x, w.y, w.mag
            (w + w).to_rhophieta()
            w.dot(w)
            w.deltaphi(w)
    finally:
        _tls.ctx = ctx


def make_fault(excname, where):
    e = EXC[excname](f"injected fault at {where}")
    e.vecsim_injected = True
    return e


class OpCtx:
    """Per-op fault context of the calling thread."""

    __slots__ = ("plan", "lib_calls", "flt_calls", "alloc_calls", "fired", "lib_names")

    def __init__(self, plan=None):
        # plan: {"lib": (n, excname) , "flt": (n, excname), "alloc": (n, excname)}
        self.plan = plan or {}
        self.lib_calls = 0
        self.flt_calls = 0
        self.alloc_calls = 0
        self.fired = []
        self.lib_names = []


_tls = threading.local()


def set_ctx(ctx):
    _tls.ctx = ctx


def get_ctx():
    return getattr(_tls, "ctx", None)


class counters:
    lib_calls = 0
    flt_calls = 0
    alloc_calls = 0
    fired = {"lib": 0, "flt": 0, "alloc": 0}


def _lib_hit(name):
    counters.lib_calls += 1
    ctx = getattr(_tls, "ctx", None)
    if ctx is None:
        return
    ctx.lib_calls += 1
    pl = ctx.plan.get("lib")
    if pl is not None and pl[0] == ctx.lib_calls:
        ctx.fired.append(("lib", name, ctx.lib_calls, pl[1]))
        counters.fired["lib"] += 1
        if pl[1] == "Reenter":
            return _reenter()
        raise make_fault(pl[1], f"lib.{name} call #{ctx.lib_calls}")


def _alloc_hit(name):
    counters.alloc_calls += 1
    ctx = getattr(_tls, "ctx", None)
    if ctx is None:
        return
    ctx.alloc_calls += 1
    pl = ctx.plan.get("alloc")
    if pl is not None and pl[0] == ctx.alloc_calls:
        ctx.fired.append(("alloc", name, ctx.alloc_calls, pl[1]))
        counters.fired["alloc"] += 1
        if pl[1] == "Reenter":
            return _reenter()
        raise make_fault(pl[1], f"{name} call #{ctx.alloc_calls} in a backend wrapper")


class BackendModuleProxy:
    """Stands in for the ``numpy`` / ``ak`` *module global* of a vector backend module: a few allocation /
    assembly functions (result wrapping, constructors, reductions) count and can fail; everything else -
    types, ufunc objects used in identity tests, constants - is the real attribute."""

    def __init__(self, real, names, label):
        object.__setattr__(self, "_real", real)
        object.__setattr__(self, "_names", frozenset(names))
        object.__setattr__(self, "_label", label)
        object.__setattr__(self, "_cache", {})

    def __getattr__(self, name):
        real = object.__getattribute__(self, "_real")
        if name not in object.__getattribute__(self, "_names"):
            return getattr(real, name)
        cache = object.__getattribute__(self, "_cache")
        w = cache.get(name)
        if w is None:
            f = getattr(real, name)
            label = object.__getattribute__(self, "_label")

            def w(*a, __f=f, __n=f"{label}.{name}", **kw):
                _alloc_hit(__n)
                return __f(*a, **kw)

            cache[name] = w
        return w


class SimLib:
    """Forwarding proxy for a NumPy-like ``lib`` module/object."""

    def __init__(self, real):
        object.__setattr__(self, "_real", real)
        object.__setattr__(self, "_cache", {})

    def __getattr__(self, name):
        real = object.__getattribute__(self, "_real")
        cache = object.__getattribute__(self, "_cache")
        w = cache.get(name)
        if w is not None:
            return w
        val = getattr(real, name)
        if callable(val) and not isinstance(val, type):
            def wrapper(*a, __f=val, __n=name, **kw):
                _lib_hit(__n)
                return __f(*a, **kw)

            wrapper.__name__ = name
            cache[name] = wrapper
            return wrapper
        return val  # constants (pi, inf) are read straight through

    def __repr__(self):
        return f"SimLib({object.__getattribute__(self, '_real')!r})"

    def __eq__(self, other):
        if isinstance(other, SimLib):
            return object.__getattribute__(self, "_real") is object.__getattribute__(other, "_real")
        return object.__getattribute__(self, "_real") == other

    def __ne__(self, other):
        return not self.__eq__(other)

    def __hash__(self):
        return hash(id(object.__getattribute__(self, "_real")))


_installed = []
_installed_mods = []


def install_simlib(vector):
    """Put one SimLib per real library on the lib class attributes.  Idempotent."""
    if _installed:
        return
    import vector.backends.awkward as vaw
    import vector.backends.numpy as vnp
    import vector.backends.object as vob
    import vector.backends.sympy as vsy

    proxies = {}

    def prox(real):
        p = proxies.get(id(real))
        if p is None:
            p = proxies[id(real)] = SimLib(real)
        return p

    for cls in (vob.VectorObject, vnp.VectorNumpy, vnp.CoordinatesNumpy, vaw.CoordinatesAwkward,
                vsy.VectorSympy, getattr(vsy, "CoordinatesSympy", None)):
        if cls is None or "lib" not in cls.__dict__:
            continue
        real = cls.__dict__["lib"]
        if isinstance(real, SimLib):
            continue
        _installed.append((cls, real))
        setattr(cls, "lib", prox(real))
    # VectorAwkward.lib is a property: wrap its getter
    prop = vaw.VectorAwkward.__dict__.get("lib")
    if isinstance(prop, property):
        fget = prop.fget

        def lib(self, __fget=fget):
            real = __fget(self)
            import types

            # only the plain module is proxied (typetracer's _lib tuple is left alone)
            return prox(real) if isinstance(real, types.ModuleType) else real

        _installed.append((vaw.VectorAwkward, prop))
        vaw.VectorAwkward.lib = property(lib)
    # allocation / assembly seam of the backend wrappers (module globals, not a source hook)
    import awkward
    import numpy

    if getattr(vnp, "numpy", None) is numpy:
        vnp.numpy = BackendModuleProxy(numpy, ("empty", "array", "zeros", "sum", "count_nonzero", "logical_or"), "numpy")
        _installed_mods.append((vnp, "numpy", numpy))
    if getattr(vaw, "ak", None) is awkward:
        vaw.ak = BackendModuleProxy(awkward, ("zip", "broadcast_arrays", "transform"), "ak")
        _installed_mods.append((vaw, "ak", awkward))


def uninstall_simlib():
    while _installed:
        cls, real = _installed.pop()
        setattr(cls, "lib", real)
    while _installed_mods:
        mod, name, real = _installed_mods.pop()
        setattr(mod, name, real)


def _flt_hit(opname):
    counters.flt_calls += 1
    ctx = getattr(_tls, "ctx", None)
    if ctx is None:
        return
    ctx.flt_calls += 1
    pl = ctx.plan.get("flt")
    if pl is not None and pl[0] == ctx.flt_calls:
        ctx.fired.append(("flt", opname, ctx.flt_calls, pl[1]))
        counters.fired["flt"] += 1
        if pl[1] == "Reenter":
            return _reenter()
        raise make_fault(pl[1], f"SimFloat.{opname} call #{ctx.flt_calls}")


class SimFloat(float):
    """float that counts its arithmetic and can fail at the n-th operation.

    Results are plain floats, so only operations *on a stored coordinate* count."""

    __slots__ = ()

    def __repr__(self):
        return float.__repr__(self)

    def __reduce__(self):
        return (SimFloat, (float(self),))


def _mk(name):
    base = getattr(float, name)

    def f(self, *a):
        _flt_hit(name)
        return base(float(self), *a)

    f.__name__ = name
    return f


for _n in ("__add__", "__radd__", "__sub__", "__rsub__", "__mul__", "__rmul__", "__truediv__",
           "__rtruediv__", "__pow__", "__rpow__", "__neg__", "__pos__", "__abs__", "__mod__",
           "__rmod__", "__floordiv__", "__rfloordiv__", "__lt__", "__le__", "__gt__", "__ge__",
           "__eq__", "__ne__"):
    setattr(SimFloat, _n, _mk(_n))
SimFloat.__hash__ = lambda self: float.__hash__(float(self))
