"""Coordinate systems, name spellings and value generation shared by all generators."""

from __future__ import annotations

import math

AZ = {"xy": ("x", "y"), "rhophi": ("rho", "phi")}
LON = {"z": ("z",), "theta": ("theta",), "eta": ("eta",)}
TMP = {"t": ("t",), "tau": ("tau",)}

SYSTEMS = (
    [(a, None, None) for a in AZ]
    + [(a, l, None) for a in AZ for l in LON]
    + [(a, l, t) for a in AZ for l in LON for t in TMP]
)
assert len(SYSTEMS) == 20

SYN = {  # geometric name -> momentum spellings
    "x": ("px",), "y": ("py",), "rho": ("pt",), "z": ("pz",),
    "t": ("E", "e", "energy"), "tau": ("M", "m", "mass"),
}
GENERIC_OF = {s: g for g, ss in SYN.items() for s in ss}

# derived-quantity synonyms (momentum name -> geometric name)
PROP_SYN = {
    "px": "x", "py": "y", "pt": "rho", "pt2": "rho2", "pz": "z", "p": "mag", "p2": "mag2",
    "pseudorapidity": "eta", "E": "t", "e": "t", "energy": "t", "E2": "t2", "e2": "t2", "energy2": "t2",
    "M": "tau", "m": "tau", "mass": "tau", "M2": "tau2", "m2": "tau2", "mass2": "tau2",
}
PROP_SYN_MINDIM = {"px": 2, "py": 2, "pt": 2, "pt2": 2, "pz": 3, "p": 3, "p2": 3, "pseudorapidity": 3}
ET_GROUPS = (("Et", "et", "transverse_energy"), ("Et2", "et2", "transverse_energy2"),
             ("Mt", "mt", "transverse_mass"), ("Mt2", "mt2", "transverse_mass2"))

TO_SYN = {  # momentum-spelled conversion -> geometric one
    "to_pxpy": "to_xy", "to_ptphi": "to_rhophi",
    "to_pxpypz": "to_xyz", "to_pxpytheta": "to_xytheta", "to_pxpyeta": "to_xyeta",
    "to_ptphipz": "to_rhophiz", "to_ptphitheta": "to_rhophitheta", "to_ptphieta": "to_rhophieta",
    "to_pxpypzenergy": "to_xyzt", "to_pxpythetaenergy": "to_xythetat", "to_pxpyetaenergy": "to_xyetat",
    "to_pxpypzmass": "to_xyztau", "to_pxpythetamass": "to_xythetatau", "to_pxpyetamass": "to_xyetatau",
    "to_ptphipzenergy": "to_rhophizt", "to_ptphithetaenergy": "to_rhophithetat", "to_ptphietaenergy": "to_rhophietat",
    "to_ptphipzmass": "to_rhophiztau", "to_ptphithetamass": "to_rhophithetatau", "to_ptphietamass": "to_rhophietatau",
}


def dim_of(sys_):
    return 2 + (sys_[1] is not None) + (sys_[2] is not None)


def names_of(sys_):
    n = list(AZ[sys_[0]])
    if sys_[1]:
        n += LON[sys_[1]]
    if sys_[2]:
        n += TMP[sys_[2]]
    return n


def spell(rng, sys_, mom, all_mom=False):
    """Coordinate names as the user would write them (momentum synonyms when mom)."""
    names = names_of(sys_)
    if not mom:
        return names
    out = []
    used = False
    for n in names:
        if n in SYN and (all_mom or rng.random() < 0.7):
            out.append(SYN[n][rng.randrange(len(SYN[n]))])
            used = True
        else:
            out.append(n)
    if not used:
        for i, n in enumerate(names):
            if n in SYN:
                out[i] = SYN[n][rng.randrange(len(SYN[n]))]
                used = True
                break
    if not used:
        return None  # (rho?, phi) always has rho->pt, so this cannot happen
    return out


NICE = (0.5, 1.0, 1.5, 2.0, 3.0, 0.25, 4.0, 0.1, 7.5, 10.0)


SPECIAL = {
    "x": (-0.0, 5e-324, float("nan"), float("inf")), "y": (-0.0, 0.0, float("nan")), "z": (-0.0, float("inf"), -float("inf")),
    "rho": (0.0, 5e-324, float("inf")), "phi": (math.pi, -math.pi, 0.0, -0.0, float("nan")),
    "theta": (0.0, math.pi, math.pi / 2), "eta": (0.0, -0.0, float("inf")), "t": (0.0, float("nan"), float("inf")), "tau": (0.0, -0.0, float("nan")),
}


def value(rng, name, hazard=False):
    """A well-conditioned value for coordinate `name` (hazard: singular/huge/special values allowed)."""
    if hazard and rng.random() < 0.25:
        return rng.choice(SPECIAL[name])
    if hazard and rng.random() < 0.5:
        if name in ("rho",):
            return 0.0
        if name in ("x", "y"):
            return rng.choice((0.0, 1e200, -1e200))
        if name == "z":
            return rng.choice((0.0, 1e200))
        if name == "theta":
            return rng.choice((0.0, math.pi))
        if name == "eta":
            return rng.choice((0.0, 1e3, -1e3))
        if name == "t":
            return rng.choice((0.0, -1.0, 1e200))
        if name == "tau":
            return rng.choice((0.0, -1.0))
    r = rng.random()
    if name in ("x", "y", "z"):
        v = rng.choice(NICE) if r < 0.5 else round(rng.uniform(0.1, 9.0), 3)
        return v if rng.random() < 0.6 else -v
    if name == "rho":
        return rng.choice(NICE) if r < 0.5 else round(rng.uniform(0.1, 9.0), 3)
    if name == "phi":
        return round(rng.uniform(-3.1, 3.1), 3)
    if name == "theta":
        return round(rng.uniform(0.2, 2.9), 3)
    if name == "eta":
        return round(rng.uniform(-2.5, 2.5), 3)
    if name == "t":
        return round(rng.uniform(15.0, 40.0), 3)  # timelike for |p| <= ~13
    if name == "tau":
        return rng.choice(NICE) if r < 0.5 else round(rng.uniform(0.1, 9.0), 3)
    raise KeyError(name)


def values(rng, sys_, hazard=False):
    return {n: value(rng, n, hazard) for n in names_of(sys_)}


def numkind(rng, v, kinds=("float", "float", "float", "int", "f64")):
    """Encode a coordinate value as a literal of a seeded numeric kind."""
    k = kinds[rng.randrange(len(kinds))]
    if k == "int":
        if v != v or v in (float("inf"), -float("inf")):
            return 1
        iv = int(round(v))
        return iv if iv != 0 or v == 0 else (1 if v > 0 else -1)
    if k == "f64":
        return {"$": "f64", "v": float(v)}
    if k == "simfloat":
        return {"$": "simfloat", "v": float(v)}
    if k == "frac":          # numbers.Real, exact: fractions.Fraction
        if v != v or v in (float("inf"), -float("inf")):
            return {"$": "frac", "v": [1, 1]}
        import fractions

        f = fractions.Fraction(v).limit_denominator(64)
        return {"$": "frac", "v": [f.numerator, f.denominator]}
    if k == "bigint":        # Python ints no double represents exactly (beyond 2**53), rarely beyond int64 too
        if v != v or v in (float("inf"), -float("inf")):
            return 2 ** 53 + 1
        kk = max(1, min(512, abs(int(v))))
        big = (2 ** 53 + 1) * kk if rng.random() < 0.85 else 2 ** 64 + 2 * kk + 1
        return -big if v < 0 else big
    return float(v)


def lit_value(x):
    """Python number of an encoded numeric literal."""
    if isinstance(x, dict):
        if x.get("$") == "frac":
            return x["v"][0] / x["v"][1]
        if x.get("$") == "dec":
            return float(x["v"])
        return x["v"]
    return x
