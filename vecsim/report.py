"""Search driver: seeded runs on all cores, violation triage (known findings by
experiment), minimisation, replay files, evidence."""

from __future__ import annotations

import collections
import concurrent.futures as cf
import hashlib
import json
import multiprocessing
import os
import re
import sys
import time

from . import engine, env, findings, shrink

REPLAYS = os.path.join(env.VERIF, "replays")
EVIDENCE = os.path.join(env.VERIF, "evidence")


class Agg:
    def __init__(self):
        self.cases = 0
        self.by_kind = collections.Counter()
        self.ops = 0
        self.raised = 0
        self.points = 0
        self.switches = 0
        self.switches_inop = 0
        self.passes = 0
        self.faults_planned = 0
        self.faults_fired = collections.Counter()
        self.natural = collections.Counter()
        self.interleavings = set()
        self.cells = set()
        self.nontrivial = set()
        self.policies = collections.Counter()
        self.observed = 0
        self.quiescent = 0
        self.capped = 0
        self.mut_ops = 0
        self.extra = collections.Counter()
        self.rid = set()
        self.variants = set()
        self.samples = []
        self.harness = []
        self.log = hashlib.sha256()

    def add(self, res):
        self.cases += 1
        self.by_kind[res["key"][0]] += 1
        st = res["stats"]
        if st is None:
            return
        self.ops += st.get("ops", 0)
        self.raised += st.get("raised", 0)
        self.points += st.get("points", 0)
        self.switches += st.get("switches", 0)
        self.switches_inop += st.get("switches_inop", 0)
        self.passes += st.get("passes", 1)
        self.faults_planned += st.get("faults_planned", 0)
        for k, v in st.get("faults_fired", {}).items():
            self.faults_fired[k] += v
        for k, v in st.get("natural_exc", {}).items():
            self.natural[k] += v
        if st.get("interleaving"):
            self.interleavings.add(st["interleaving"])
        for c in st.get("cells", ()):
            self.cells.add(c)
        self.rid.update(st.get("raised_in_dispatch", ()))
        self.variants.update(st.get("variants", ()))
        if st.get("nontrivial"):
            self.nontrivial.add(st.get("interleaving") or st.get("case_digest") or f"{res['key'][0]}:{res['key'][1]}")
        if st.get("policy"):
            self.policies[st["policy"]] += 1
        self.extra["threads_unblocked_by_recovery"] += st.get("unblocked", 0)
        self.extra["lock_waits_scheduled"] += st.get("lockwaits", 0)
        self.observed += st.get("observed", 0)
        self.quiescent += st.get("quiescent", 0)
        self.capped += 1 if st.get("capped") else 0
        self.mut_ops += st.get("mut_ops", 0)
        for k, v in (st.get("extra") or {}).items():
            self.extra[k] += v
        if len(self.samples) < 3 and res.get("brief") is not None:
            self.samples.append(res["brief"])


def _pool(jobs):
    ctx = multiprocessing.get_context("fork")
    return cf.ProcessPoolExecutor(max_workers=jobs, mp_context=ctx)


def run_items(items, work, jobs, wall_cap):
    """Run items on a fork pool; stop submitting when the wall cap is reached."""
    t0 = time.monotonic()
    results = []
    it = iter(items)
    cut = False
    with _pool(jobs) as ex:
        pending = set()
        for _ in range(jobs * 3):
            x = next(it, None)
            if x is None:
                break
            pending.add(ex.submit(work, x))
        while pending:
            done, pending = cf.wait(pending, timeout=60, return_when=cf.FIRST_COMPLETED)
            for fut in done:
                try:
                    results.append(fut.result())
                except Exception as e:
                    results.append({"key": ("?", -1), "viol": [], "stats": None, "harness": [f"worker died: {type(e).__name__}: {e}"], "brief": None})
            if not done and time.monotonic() - t0 > wall_cap + 300:
                results.append({"key": ("?", -1), "viol": [], "stats": None, "harness": ["pool stalled"], "brief": None})
                for f in pending:
                    f.cancel()
                break
            for _ in range(len(done)):
                if wall_cap and time.monotonic() - t0 > wall_cap:
                    cut = True
                    break
                x = next(it, None)
                if x is None:
                    break
                pending.add(ex.submit(work, x))
    results.sort(key=lambda r: (r["key"][0], r["key"][1]))
    return results, time.monotonic() - t0, cut


def triage(prop, case, viols, tier, out_lines):
    """Split the violations of one case into (attributed to listed findings, remaining)."""
    mine = [v for v in viols if v["prop"] == prop]
    if not mine:
        return [], []
    attributed = []
    cur = case
    remaining = mine
    for f in findings.known(prop):
        if not remaining:
            break
        neu = findings.neutralise(f, cur)
        if neu is None:
            continue
        out = engine.run_case(neu, tier)
        left = collections.Counter(engine.sig(v) for v in out["viol"] if v["prop"] == prop)
        still, gone = [], []
        for v in remaining:
            s = engine.sig(v)
            if left.get(s, 0) > 0:
                still.append(v)
            else:
                gone.append(v)
        for v in gone:
            attributed.append((f, v))
        cur = neu
        remaining = still
    return attributed, remaining


def write_replay(prop, case, sigs, seed, sched_list=None):
    os.makedirs(REPLAYS, exist_ok=True)
    body = {"property": prop, "seed": seed, "case": case, "expected": sorted(sigs), "tree": env.tree_hash()}
    if sched_list is not None:
        body["explicit_schedule"] = sched_list
    h = hashlib.sha256(json.dumps(body, sort_keys=True, default=str).encode()).hexdigest()[:10]
    path = os.path.join(REPLAYS, f"{prop}-{seed}-{h}.json")
    with open(path, "w") as fh:
        json.dump(body, fh, indent=1, default=str)
    return path


def freeze_schedule(case, tier):
    """Replace the seeded schedule by the explicit switch list actually taken."""
    if case.get("kind") != "world" or len(case["progs"]) < 2 or case.get("serial_only"):
        return case, None
    out = engine.run_case(case, tier)
    lst = out.get("sched_list")
    if not lst:
        return case, None
    c2 = json.loads(json.dumps(case))
    c2["sched"] = {"kind": "explicit", "explicit": lst, "domain": case["sched"].get("domain", "line"), "seed": 0}
    out2 = engine.run_case(c2, tier)
    want = {engine.loose_sig(v) for v in out["viol"]}
    got = {engine.loose_sig(v) for v in out2["viol"]}
    if want and want <= got:
        c3, lst3 = minimise_schedule(c2, lst, want, tier)
        return c3, lst3
    return case, None


def minimise_schedule(case, lst, want, tier, budget=40):
    """Shorten the explicit switch list: shortest prefix that still shows the violation (after it the
    running thread simply runs on), then drop single switches from the tail end."""

    def shows(sw):
        c = json.loads(json.dumps(case))
        c["sched"]["explicit"] = sw
        try:
            out = engine.run_case(c, tier)
        except Exception:
            return False
        return want <= {engine.loose_sig(v) for v in out["viol"]}

    lo, hi = 1, len(lst)
    runs = 0
    while lo < hi and runs < budget:
        mid = (lo + hi) // 2
        runs += 1
        if shows(lst[:mid]):
            hi = mid
        else:
            lo = mid + 1
    best = lst[:hi] if (hi == len(lst) or shows(lst[:hi])) else lst
    # pairs of switches (away and back) that are not needed
    i = len(best) - 2
    while i >= 1 and runs < budget:
        cand = best[:i] + best[i + 2:]
        runs += 1
        if shows(cand):
            best = cand
        i -= 2
    c = json.loads(json.dumps(case))
    c["sched"]["explicit"] = best
    return c, best


def run_check(args, plan_items, work, PLAN):
    prop = args.prop
    if prop not in PLAN:
        print(f"unknown property {prop}", file=sys.stderr)
        return 2
    t_start = time.monotonic()
    items = plan_items(prop, args.tier, args.seed, args.cases)
    cap = args.budget if args.budget else (PLAN[prop][3] if args.tier == "quick" else PLAN[prop][4])
    results, wall, cut = run_items(items, work, args.jobs, cap)
    agg = Agg()
    violating = []
    other_prop = collections.Counter()
    for r in results:
        agg.add(r)
        st_ = r["stats"] or {}
        agg.log.update(repr((r["key"], sorted(engine.sig(v) for v in r["viol"]), st_.get("interleaving"), st_.get("ops"), st_.get("raised"),
                             st_.get("points"), sorted((st_.get("natural_exc") or {}).items()), sorted((st_.get("faults_fired") or {}).items()),
                             hashlib.sha256(repr(st_.get("cells")).encode()).hexdigest()[:12])).encode())
        if r["harness"]:
            agg.harness.extend(f"{r['key']}: {h}" for h in r["harness"])
        if any(v["prop"] == prop for v in r["viol"]):
            violating.append(r)
        for v in r["viol"]:
            if v["prop"] != prop:
                other_prop[engine.sig(v)] += 1

    known_lines = collections.OrderedDict()
    real = []  # (case, remaining violations)
    for r in violating:
        kind, seed = r["key"]
        case = engine.generate(kind, seed, args.tier, prop)
        attributed, remaining = triage(prop, case, r["viol"], args.tier, known_lines)
        for f, v in attributed:
            key = f["id"]
            known_lines.setdefault(key, [f, 0, v, r["key"]])
            known_lines[key][1] += 1
        if remaining:
            real.append((case, remaining, r["key"]))

    for key, (f, n, v, ck) in known_lines.items():
        print(f"KNOWN-FINDING: property={prop} {f['id']}: {f['what']} [{n} manifestation(s), e.g. {engine.sig(v)} in case {ck[0]}:{ck[1]}]", flush=True)

    exit_code = 0
    replay_paths = []
    seen = set()
    for case, remaining, ck in real:
        sigs = {engine.loose_sig(v) for v in remaining}
        key = frozenset(sigs)
        if key in seen and len(replay_paths) >= 1:
            continue
        seen.add(key)
        if len(replay_paths) >= 4:
            continue
        small = case
        iso_t = []
        for v in remaining:
            m = re.search(r"Piso\[(P|T):(\d+)(?::(\d+))?\]", v["pass"])
            if m:
                t = ["P", int(m.group(2))] if m.group(1) == "P" else ["T", int(m.group(2)), int(m.group(3))]
                if t not in iso_t:
                    iso_t.append(t)
        if iso_t and case.get("kind") == "world":
            small = dict(case, iso_targets=iso_t[:3])   # the isolation targets that showed it are frozen into the case
            case = small
        if not args.no_shrink:
            try:
                small = shrink.shrink(case, sigs, args.tier, max_runs=80 if args.tier == "quick" else 200)
            except Exception as e:
                agg.harness.append(f"shrink failed: {type(e).__name__}: {e}")
                small = case
        small, lst = freeze_schedule(small, args.tier)
        path = write_replay(prop, small, {engine.sig(v) for v in remaining}, args.seed, lst)
        replay_paths.append(path)
        v0 = remaining[0]
        print(f"violation: {engine.sig(v0)} pass={v0['pass']} site={v0['site']} :: {v0['detail'][:300]}", flush=True)
        print(f"VIOLATION property={prop} replay={path}", flush=True)
        exit_code = 1

    total_wall = time.monotonic() - t_start
    if not args.no_evidence:
        write_evidence(prop, args, agg, total_wall, wall, cut, len(real), known_lines, other_prop, len(items))
    if args.digest:
        print(f"EVENTLOG-DIGEST {agg.log.hexdigest()[:24]} cases={agg.cases}")
    if agg.harness:
        print(f"harness errors: {len(agg.harness)}; first: {agg.harness[0][:800]}", file=sys.stderr, flush=True)
        if exit_code == 0:
            exit_code = 2
    print(f"{prop}: {agg.cases} runs, {agg.ops} ops, {agg.points} pre-emption points, {agg.switches_inop} in-op switches, "
          f"faults fired {dict(agg.faults_fired)}, natural exceptions {sum(agg.natural.values())}, "
          f"{len(real)} violating case(s), {len(known_lines)} known finding(s), wall {total_wall:.1f}s", flush=True)
    return exit_code


def write_evidence(prop, args, agg, total_wall, search_wall, cut, nviol, known_lines, other_prop, planned):
    os.makedirs(EVIDENCE, exist_ok=True)
    rate = agg.cases / search_wall * 3600 if search_wall > 0 else 0
    cov = {
        "evaluations": agg.cases,
        "distinct_nontrivial": len(agg.nontrivial),
        "rule": ("cases are generated from VERIF_SEED by the seeded generators in /verif/vecsim (one integer -> one execution); "
                 "a case counts as non-trivial when it had >= 1 context switch inside an operation, or >= 1 injected fault that fired, "
                 "or >= 1 state-changing operation / raised step; distinct = distinct switch-trace digest for interleaved runs, "
                 "distinct case seed otherwise (measured, not derived from evaluations)"),
        "samples": agg.samples or [{"note": "no sample"}],
        "planned_cases": planned,
        "cut_by_wall_cap": bool(cut),
        "runs_per_hour": int(rate),
        "seeds_per_hour": int(rate),
        "simulated_time": "not applicable: vector has no clock or timer; logical time = pre-emption points executed",
        "logical_time_preemption_points": agg.points,
        "process_passes": agg.passes,
        "operations_executed": agg.ops,
        "operations_that_raised": agg.raised,
        "context_switches": agg.switches,
        "context_switches_inside_operations": agg.switches_inop,
        "distinct_interleavings": len(agg.interleavings),
        "distinct_interleavings_measure": "distinct sha256 digests of the switch trace (thread, next thread, kind, code location, op index)*",
        "distinct_states": len(agg.cells),
        "distinct_states_measure": "distinct (operation x operand backend/coordinate-system signature x outcome class) cells, or model states for history checks",
        "schedule_policies": dict(agg.policies),
        "fault_kinds": {
            "injected_lib_call_fault": {"configured": agg.faults_planned, "fired": agg.faults_fired.get("lib", 0)},
            "injected_float_operator_fault": {"fired": agg.faults_fired.get("flt", 0)},
            "injected_backend_allocation_fault": {"fired": agg.faults_fired.get("alloc", 0)},
            "of_those_delivered_as_cancellation_BaseException": {"fired": agg.faults_fired.get("cancel", 0)},
            "of_those_delivered_as_reentrant_callback_instead_of_an_exception": {"fired": agg.faults_fired.get("reenter", 0)},
            "natural_exceptions_by_type": dict(agg.natural),
        },
        "dispatch_overrides_with_a_raising_path_inside": len(agg.rid),
        "dispatch_overrides_total": _n_dispatch(),
        "dispatch_variants_reached_by_the_every_variant_sweep": len(agg.variants),
        "dispatch_variants_total": _n_variants(),
        "mid_call_observations": agg.observed,
        "quiescent_point_checks": agg.quiescent,
        "state_changing_ops": agg.mut_ops,
        "runs_hitting_step_cap": agg.capped,
        "case_kinds": dict(agg.by_kind),
        "extra": dict(agg.extra),
        "known_findings_reported": {k: v[1] for k, v in known_lines.items()},
        "violations_of_other_properties_seen": dict(other_prop),
        "components": {
            "real": ["all of vector (working tree /repo/src)", "numpy", "awkward", "sympy", "CPython threads"],
            "stub": ["SimLib (forwarding lib proxy)", "SimFloat (counting float)", "baton scheduler (sys.monitoring)", "in-process pickle restart"],
        },
        "tree": env.tree_hash(),
        "probes_stuck_at_zero": [k for k, v in (("lib_fault_fired", agg.faults_fired.get("lib", 0)), ("flt_fault_fired", agg.faults_fired.get("flt", 0)),
                                                 ("in_op_switch", agg.switches_inop), ("natural_exception", sum(agg.natural.values()))) if v == 0],
    }
    ev = {
        "property_id": prop,
        "tier": args.tier,
        "seed": args.seed,
        "level": "exploration",
        "coverage": cov,
        "assumptions": [
            "pre-emption at line granularity inside /repo/src/vector only; numpy/awkward/sympy internals are atomic for the scheduler",
            "seeded search samples the space of histories, schedules and fault placements; a clean batch is evidence, not proof",
            "every pass runs in a child forked from a warm parent that has never executed a vector operation",
        ],
        "wall_s": round(total_wall, 2),
        "violations": nviol,
    }
    path = os.path.join(EVIDENCE, f"{prop}.json")
    with open(path, "w") as fh:
        json.dump(ev, fh, indent=1, default=str)


def _n_dispatch():
    from . import sites

    return sum(1 for rel, a, b in sites.get()["dispatch_with"] if rel.startswith("_compute"))


def _n_variants():
    import importlib
    import pkgutil

    import vector._compute

    tot = 0
    for m in pkgutil.walk_packages(vector._compute.__path__, "vector._compute."):
        tot += len(getattr(importlib.import_module(m.name), "dispatch_map", ()) or ())
    return tot


def replay(args):
    with open(args.replay) as fh:
        body = json.load(fh)
    prop = body["property"]
    case = body["case"]
    want = set(body["expected"])
    outs = []
    for _ in range(2):
        out = engine.run_case(case, args.tier)
        outs.append(sorted(engine.sig(v) for v in out["viol"] if v["prop"] == prop))
    same = outs[0] == outs[1]
    got = set(outs[0])
    print(f"replay {args.replay}: expected {sorted(want)}; got {sorted(got)}; repeatable={same}; tree {env.tree_hash()} (recorded {body.get('tree')})")
    loose = lambda s: "|".join(s.split("|")[:3])  # noqa: E731
    if {loose(s) for s in want} & {loose(s) for s in got}:
        print(f"VIOLATION property={prop} replay={args.replay}")
        return 1
    print("violation did not reproduce on this tree")
    return 0
