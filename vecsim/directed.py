"""Directed part of every tier: systematic placement, then the random search.

Templates are *enumerated* (index = item number), their remaining choices drawn from
the seed.  Targets (with-bodies, stores, flag reads) come from the AST scan, not from
hard-coded line numbers.

  raise-in-override : every catalogued property/method on an object vector, with a fault
                      that lands inside the dispatch()'s error-state override
                      (SimFloat first/second operator, lib first call, mixed lib),
                      under a non-default prior error state
  rendezvous        : two threads driven through the same with-bodies / stores / flag
                      reads with switches exactly at those sites (A-in B-in A-out B-out ...)
  register-race     : register_awkward() in one thread while the other builds / uses
                      Awkward vectors (switches at the reads of the flag)
  mutators          : every setter spelling, in-place operator and out= form on private
                      objects next to readers of shared operands
"""

from __future__ import annotations

import random

from . import coords as C
from . import gen as G

P, R, M, PATH = G.P, G.R, G.M, G.PATH


def _names():
    out = []
    for d in (2, 3, 4):
        out += [("prop", n, d) for n in G.PROPS[d]]
        out += [("mprop", n, d) for n in G.MOMPROPS[d]]
    out += [("meth", n, mind) for n, (mind, spec) in G.METHODS.items()]
    out += [("to", n, 2) for n in G.to_methods()]
    return out


_TEMPLATES = None


def templates():
    global _TEMPLATES
    if _TEMPLATES is None:
        t = []
        for kind, name, mind in _names():
            for fault in ("flt1", "flt2", "lib1", "mixlib", "np_lib1", "ak_lib1"):
                t.append(("raise", kind, name, mind, fault))
        for which in (["with"], ["with", "store", "flag"], ["store", "flag", "func"]):
            for p in (1.0, 0.5):
                for variant in range(12):
                    t.append(("rendezvous", which, p, variant))
        for variant in range(24):
            t.append(("register", variant))
        for variant in range(48):
            t.append(("mutators", variant))
        _TEMPLATES = t
    return _TEMPLATES


_REACH = None


def reach_templates():
    """Every dispatch variant once: one world per (backend, stored system of self)."""
    global _REACH
    if _REACH is None:
        _REACH = [("reach", be, si) for be in ("np", "ak", "obj") for si in range(20)]
    return _REACH


_PAIR = None


def pair_templates():
    """Same operation from two threads at once, for every catalogued name."""
    global _PAIR
    if _PAIR is None:
        _PAIR = [("pair", kind, name, d, be) for be in ("obj", "np", "ak") for kind, name, mind in _names()
                 for d in (2, 3, 4) if d >= _mindim(kind, name, mind)]
    return _PAIR


def _mindim(kind, name, mind):
    if kind == "mprop":
        return max(mind, {n: d for d in (2, 3, 4) for n in G.MOMPROPS[d]}[name])
    if kind == "prop":
        return max(mind, {n: d for d in (2, 3, 4) for n in G.PROPS[d]}[name])
    return mind


def numba_templates():
    return [("numba", v) for v in range(6)]


_VRACE_T0 = ["add", "to_xyz", "to_rhophietatau", "unit", "scale", "rotateZ", "cross", "boost_p4", "to_Vector4D", "rho", "deltaR", "transform3D"]
_VRACE_BAD = ["nonnumeric?", "nonnumericc16", "nonnumericU3", "nonnumericm8[s]", "badnames", "boolval", "missing", "dup", "baddtype", "wrongdim", "zip_notdict", "coordcls"]


def vrace_templates():
    """A validating / failing call from one thread while another is parked inside an ordinary operation."""
    return [("vrace", a, b) for a in _VRACE_T0 for b in _VRACE_BAD]


def manyclasses_templates():
    """Every vector class of every backend in one process, touched from several threads: bounded caches, lazily built
    tables and per-class registries see evictions, clears and first-time inserts while another thread is inside them."""
    return [("manyclasses", v) for v in range(24)]


def mutsym_templates():
    """Symbolic private targets: out= forms and in-place operators with pooled symbolic operands."""
    return [("mutsym", v) for v in range(24)]


def register_templates():
    """register_awkward() racing with Awkward construction and use: 24 variants x 4 schedules."""
    return [("register", v, q) for q in range(4) for v in range(24)]


def _unused_templates():
    if True:
        pass
    return _TEMPLATES


def gen_case(seed, tier, focus):
    idx = seed % 100000
    base = seed // 100000
    if idx >= 90000:
        tpl = reach_templates()
        t = tpl[(idx - 90000) % len(tpl)]
    elif idx >= 80000:
        tpl = pair_templates()
        t = tpl[(idx - 80000) % len(tpl)]
    elif idx >= 70000:
        tpl = register_templates()
        t = tpl[(idx - 70000) % len(tpl)]
    elif idx >= 60000:
        tpl = numba_templates()
        t = tpl[(idx - 60000) % len(tpl)]
    elif idx >= 50000:
        tpl = vrace_templates()
        t = tpl[(idx - 50000) % len(tpl)]
    elif idx >= 40000:
        tpl = mutsym_templates()
        t = tpl[(idx - 40000) % len(tpl)]
    elif idx >= 30000:
        tpl = manyclasses_templates()
        t = tpl[(idx - 30000) % len(tpl)]
    else:
        tpl = templates()
        t = tpl[idx % len(tpl)]
    rng = random.Random((base << 20) ^ idx)
    g = G.WorldGen(rng.randrange(1 << 30), tier, focus or "C20")
    g.rng = rng
    fn = {"raise": _raise_case, "rendezvous": _rendezvous_case, "register": _register_case, "mutators": _mutator_case,
          "reach": _reach_case, "pair": _pair_case, "numba": _numba_case, "vrace": _vrace_case, "mutsym": _mutsym_case, "manyclasses": _manyclasses_case}[t[0]]
    w = fn(g, rng, t)
    w["seed"] = seed
    w["directed"] = list(map(str, t))
    return w


def _base_knobs(g, nthreads):
    k = g.knobs()
    k["nthreads"] = nthreads
    k["hazard_findings"] = False
    k["hazard_values"] = False
    k["errstate"] = [g.rng.choice(({"all": "raise"}, {"all": "warn"}, {"divide": "raise", "over": "call"}, {"all": "print"})) for _ in range(nthreads)]
    return k


def _finish(g, k, progs, faults, sched, **extra):
    cfg = {"awk_mode": k["awk_mode"], "errstate": k["errstate"], "warnfilter": k["warnfilter"], "printopts": k["printopts"],
           "simlib": any(f["seam"] in ("lib", "alloc") for f in faults)}
    w = {"kind": "world", "config": cfg, "pool": g.pool, "progs": progs, "faults": faults, "sched": sched,
         "knobs": {"nthreads": len(progs), "directed": True}}
    w.update(extra)
    return w


def _call_for(g, j, kind, name):
    if kind in ("prop", "mprop"):
        return {"f": "." + name, "a": [P(j)], "attr": 1}
    if kind == "to":
        return {"f": "." + name, "a": [P(j)]}
    return g.method_call(j, name)


def _raise_case(g, rng, t):
    _, kind, name, mind, fault = t
    k = _base_knobs(g, 1)
    dim = max(mind, rng.choice((2, 3, 4)))
    if kind == "mprop":
        dim = max(dim, {n: d for d in (2, 3, 4) for n in G.MOMPROPS[d]}[name])
    if kind == "prop":
        dim = max(dim, {n: d for d in (2, 3, 4) for n in G.PROPS[d]}[name])
    k["backends"] = {"obj": True, "np": fault == "np_lib1", "ak": fault == "ak_lib1", "sym": fault == "mixlib"}
    # operands: same-dimension partners so that binary methods reach their dispatch
    sysl = [s for s in C.SYSTEMS if C.dim_of(s) == dim]
    faults = []
    if fault.startswith("flt"):
        for _ in range(2):
            sys_ = sysl[rng.randrange(len(sysl))]
            mom = True if kind == "mprop" else rng.random() < 0.5
            g.add({"f": "vector.obj", "k": g.coord_kwargs(sys_, mom, kinds=("simfloat",))}, be="obj", dim=dim, mom=mom, sys=sys_, simfloat=True)
        g.mk_obj(k, dim=3, simfloat=True)
        g.mk_obj(k, dim=4, simfloat=True)
        j = 0
        faults.append({"t": 0, "i": 0, "seam": "flt", "n": int(fault[3]), "exc": rng.choice(("OverflowError", "ZeroDivisionError", "FloatingPointError"))})
    elif fault in ("lib1", "np_lib1", "ak_lib1"):
        mk = {"lib1": g.mk_obj, "np_lib1": g.mk_np, "ak_lib1": g.mk_ak}[fault]
        sys_mom = True if kind == "mprop" else None
        for _ in range(2):
            jj = mk(k, dim=dim)
            if sys_mom:
                # momentum accessors need a momentum operand: rebuild as momentum object if needed
                pass
        g.mk_obj(k, dim=3)
        g.mk_obj(k, dim=4)
        cands = [q for q, d in enumerate(g.desc) if d.be in ("obj", "np", "ak") and d.dim == dim and (kind != "mprop" or d.mom)]
        if not cands:
            sys_ = sysl[rng.randrange(len(sysl))]
            cands = [g.add({"f": "vector.obj", "k": g.coord_kwargs(sys_, True)}, be="obj", dim=dim, mom=True, sys=sys_)]
        j = cands[0]
        faults.append({"t": 0, "i": 0, "seam": "lib", "n": rng.choice((1, 1, 2)), "exc": rng.choice(("MemoryError", "FloatingPointError", "OverflowError"))})
    else:  # mixlib: object x sympy raises TypeError from _lib_of *inside* the override
        sys_ = sysl[rng.randrange(len(sysl))]
        mom = True if kind == "mprop" else rng.random() < 0.5
        j = g.add({"f": "vector.obj", "k": g.coord_kwargs(sys_, mom)}, be="obj", dim=dim, mom=mom, sys=sys_)
        for d in sorted({dim, 3, 4}):
            g.mk_sym(k, dim=d)
    op = _call_for(g, j, kind, name)
    if fault == "mixlib":
        # force the partner to be the sympy vector of a suitable dimension
        for q, a in enumerate(op.get("a", [])[1:], start=1):
            if isinstance(a, dict) and a.get("$") == "p" and g.desc[a["v"]].be in ("obj", "np", "ak", "akrec", "sym"):
                want = g.desc[a["v"]].dim if a["v"] < len(g.desc) else dim
                sy = [s for s, d in enumerate(g.desc) if d.be == "sym" and d.dim == want] or [s for s, d in enumerate(g.desc) if d.be == "sym"]
                op["a"][q] = P(sy[0])
    op["cat"] = "directed"
    follow = {"f": "." + rng.choice(("rho", "phi", "x")), "a": [P(j)], "attr": 1, "cat": "directed"}
    progs = [[op, follow]]
    return _finish(g, k, progs, faults, {"kind": "serial", "seed": 0}, niso=0)


def _dispatching_ops(g, rng, n, be=("obj", "np", "ak")):
    out = []
    for _ in range(n):
        c = g.vec_slots(be=be) or g.vec_slots()
        j = rng.choice(c)
        d = g.desc[j]
        r = rng.random()
        if r < 0.35:
            cands = [x for dd in range(2, d.dim + 1) for x in G.PROPS[dd]]
            out.append({"f": "." + rng.choice(cands), "a": [P(j)], "attr": 1, "cat": "directed"})
        elif r < 0.7:
            cands = [nm for nm, (mind, spec) in G.METHODS.items() if mind <= d.dim and spec and spec[0].lstrip("?").startswith("v")]
            o = g.method_call(j, rng.choice(cands))
            o["cat"] = "directed"
            out.append(o)
        else:
            o = {"f": "." + rng.choice(g.tometh), "a": [P(j)], "cat": "directed"}
            out.append(o)
    return out


def _rendezvous_case(g, rng, t):
    _, which, p, variant = t
    k = _base_knobs(g, 2 + (variant % 3 == 2))
    k["backends"] = {"obj": True, "np": variant % 2 == 0, "ak": variant % 4 >= 2, "sym": False}
    for d in (2, 3, 4, rng.choice((2, 3, 4))):
        g.mk_obj(k, dim=d)
        if k["backends"]["np"]:
            g.mk_np(k, dim=d, shape=[3])
        if k["backends"]["ak"] and rng.random() < 0.5:
            g.mk_ak(k, dim=d)
    progs = [_dispatching_ops(g, rng, rng.choice((2, 3, 5))) for _ in range(k["nthreads"])]
    faults = []
    if variant % 3 == 1:
        # one thread raises inside the override while the other is parked inside its own
        tt = rng.randrange(len(progs))
        faults.append({"t": tt, "i": rng.randrange(len(progs[tt])), "seam": "lib", "n": rng.choice((1, 2)), "exc": "FloatingPointError"})
    sched = {"kind": "sites", "seed": rng.randrange(1 << 30), "p": p, "which": which, "domain": "line", "observe": 4}
    return _finish(g, k, progs, faults, sched, niso=0)


def _register_case(g, rng, t):
    variant = t[1]
    qsched = t[2] if len(t) > 2 else None
    k = _base_knobs(g, 2 + (variant % 2))
    k["awk_mode"] = "unregistered" if variant % 4 else "registered_before"
    k["backends"] = {"obj": True, "np": False, "ak": True, "sym": False}
    for d in (2, 3, 4):
        g.mk_ak(k, dim=d)
        g.mk_obj(k, dim=d)
    progs = []
    reg = {"f": "vector.register_awkward", "reg": "awkward", "cat": "register"}
    progs.append([reg] + ([dict(reg)] if variant % 3 == 0 else []) + _dispatching_ops(g, rng, 1, be=("ak",)))
    for _ in range(k["nthreads"] - 1):
        body = []
        for _ in range(rng.choice((2, 3, 4))):
            r = rng.random()
            if r < 0.55:
                # constructors read the flag and build against the registry: the interesting ops for this race
                sys_ = g.pick_sys()
                data = g._ak_records(sys_, rng.random() < 0.5, 2, False)
                if rng.random() < 0.65:
                    o = {"f": "vector.zip", "a": [{nm: [rec[nm] for rec in data] for nm in data[0]}]}
                else:
                    o = {"f": "vector.Array", "a": [data]}
                o["cat"] = "directed"
                body.append(o)
            else:
                body += _dispatching_ops(g, rng, 1, be=("ak",))
        progs.append(body)
    if variant % 5 == 0:
        progs[-1].append(dict(reg))
    sched = {"kind": "sites", "seed": rng.randrange(1 << 30), "p": rng.choice((1.0, 0.5)), "which": ["flag", "store", "func"], "domain": "line", "observe": 2}
    if qsched is not None:
        sched = [{"kind": "parkop", "p": 1.0, "which": ["flag", "store", "func"]}, {"kind": "parkop", "p": 0.5, "which": ["flag", "store", "func"]},
                 {"kind": "sites", "p": 0.5, "which": ["flag", "store", "func", "with"]}, {"kind": "parkop", "p": 0.25, "which": ["flag", "store", "func"]}][qsched]
        sched.update(seed=rng.randrange(1 << 30), domain="line", observe=2)
    return _finish(g, k, progs, [], sched, niso=0)


def _mutator_case(g, rng, t):
    _, variant = t
    k = _base_knobs(g, 2)
    k["backends"] = {"obj": True, "np": True, "ak": False, "sym": False}
    k["cats"] = {c: 0 for c in k["cats"]}
    k["cats"]["mutate"] = 5
    k["cats"]["prop"] = 1
    k["cats"]["binary"] = 1
    k["nops"] = rng.choice((6, 10, 14))
    for d in (2, 3, 4):
        g.mk_obj(k, dim=d)
        g.mk_np(k, dim=d, shape=[3])
    progs = g.build_progs(k)
    faults = g.build_faults(dict(k, faults=variant % 2 == 0, fault_kinds=["lib"]), progs)
    sched = {"kind": rng.choice(("walk", "sites")), "seed": rng.randrange(1 << 30), "p": 0.3, "which": ["with", "store", "func"], "domain": "line", "observe": 4}
    return _finish(g, k, progs, faults, sched, niso=1)


def _mk_like(g, k, be, sys_, mom, n=3):
    """An operand of backend `be` stored in `sys_`."""
    rng = g.rng
    d = C.dim_of(sys_)
    if be == "obj":
        return g.add({"f": "vector.obj", "k": g.coord_kwargs(sys_, mom, kinds=("float",))}, be="obj", dim=d, mom=mom, sys=sys_)
    names, cols = g._cols(sys_, mom, [n])
    if be == "np":
        lit = g.add({"f": "vecsim.lit", "a": [{nm: {"$": "arr", "v": cols[nm], "dtype": "f8"} for nm in names}]}, be="other")
        return g.add({"f": "vector.array", "a": [P(lit)]}, be="np", dim=d, mom=mom, sys=sys_, shape=[n], src=lit)
    recs = [{nm: cols[nm][i] for nm in names} for i in range(n)]
    if rng.random() < 0.5:
        recs = [recs[:2], [], recs[2:]]
        return g.add({"f": "vector.Array", "a": [recs]}, be="ak", dim=d, mom=mom, sys=sys_, shape=[3, None], lay="jagged")
    return g.add({"f": "vector.Array", "a": [recs]}, be="ak", dim=d, mom=mom, sys=sys_, shape=[n], lay="flat")


def _reach_case(g, rng, t):
    _, be, si = t
    k = _base_knobs(g, 1)
    k["awk_mode"] = rng.choice(("unregistered", "registered_before"))
    k["errstate"] = [rng.choice(({"all": "raise"}, {"all": "warn"}, None))]
    sys_ = C.SYSTEMS[si]
    dim = C.dim_of(sys_)
    mom = rng.random() < 0.5 or dim == 4   # Et/Mt (and squares) exist on momentum vectors only
    me = _mk_like(g, k, be, sys_, mom)
    partners = {d: [] for d in (2, 3, 4)}
    for s2 in C.SYSTEMS:
        d2 = C.dim_of(s2)
        if d2 == dim or (d2 == 3 and dim >= 3) or (d2 == 4 and dim == 4):
            pbe = be if rng.random() < 0.8 else "obj"
            partners[d2].append(_mk_like(g, k, pbe, s2, rng.random() < 0.5))
    ops_ = []

    def add(op):
        op["cat"] = "reach"
        ops_.append(op)

    for d in range(2, dim + 1):
        for n in G.PROPS[d] + (G.MOMPROPS[d] if mom else []):
            add({"f": "." + n, "a": [P(me)], "attr": 1})
    for n in G.to_methods():
        add({"f": "." + n, "a": [P(me)]})
    for n, (mind, spec) in G.METHODS.items():
        if mind > dim:
            continue
        kinds = [a.lstrip("?") for a in spec]
        if kinds and kinds[0] in ("vsame", "vany", "v3", "v3b", "v4", "v34", "v34b"):
            want = {"vsame": [dim], "vany": [dim], "v3": [3], "v3b": [3], "v4": [4], "v34": [3, 4] if dim == 4 else [3], "v34b": [3, 4]}[kinds[0]]
            for d2 in want:
                for pj in partners.get(d2, []):
                    op = g.method_call(me, n)
                    op["a"][1] = P(pj)
                    add(op)
        elif n == "rotate_euler":
            for order in G.EULER_ORDERS + ["yxz", "xzy", "zxy"]:
                add({"f": ".rotate_euler", "a": [P(me), 0.3, -0.7, 1.1], "k": {"order": order}})
        elif kinds and kinds[0] in ("fac",):
            for f in (2.0, -1.5, 0.0):
                add({"f": "." + n, "a": [P(me), f]})
        elif kinds and kinds[0] == "kwbeta":
            add({"f": "." + n, "a": [P(me)], "k": {"beta": 0.4}})
            add({"f": "." + n, "a": [P(me)], "k": {"gamma": -1.5}})
        else:
            add(g.method_call(me, n))
    for u in G.UFUNCS1:
        add({"f": "numpy." + u, "a": [P(me)]})
    for pj in partners[dim][:4]:
        for u in ("add", "subtract", "matmul", "equal", "not_equal"):
            add({"f": "numpy." + u, "a": [P(me), P(pj)]})
    for f in (2.0, -3.0):
        add({"f": "numpy.multiply", "a": [P(me), f]})
        add({"f": "numpy.true_divide", "a": [P(me), f]})
        add({"f": "numpy.power", "a": [P(me), abs(f) + 1]})
    if be == "np":
        for fnm in ("sum", "count_nonzero"):
            add({"f": "numpy." + fnm, "a": [P(me)]})
    if be == "ak":
        for fnm in ("sum", "count", "count_nonzero"):
            add({"f": "awkward." + fnm, "a": [P(me)], "k": {"axis": -1 if g.desc[me].lay == "jagged" else 0}})
    add({"f": "builtins.repr", "a": [P(me)]})
    add({"f": "copy.deepcopy", "a": [P(me)]})
    w = _finish(g, k, [ops_], [], {"kind": "serial", "seed": 0}, niso=0, serial_only=True, reach=True)
    return w


def _pair_case(g, rng, t):
    """Two threads run the same operation - thread 0 on momentum operands, thread 1 on generic ones, in
    seeded stored systems - switching at every shared-state site (with-bodies, global / class-attribute
    stores, flag reads, hot functions)."""
    _, kind, name, dim, be = t
    k = _base_knobs(g, 2)
    k["awk_mode"] = rng.choice(("unregistered", "registered_before"))
    sysl = [s_ for s_ in C.SYSTEMS if C.dim_of(s_) == dim]
    selfs = []
    partners = [dict(), dict()]
    # half of the worlds: both threads go through the *same* dispatch entry (same stored systems, same backends) with
    # different values and different scalar arguments - whatever one call keeps on an object, closure or table shared
    # per function / per signature is then visible to the other
    same = rng.random() < 0.5
    sys0 = sysl[rng.randrange(len(sysl))]
    for q in range(2):
        mom = True if kind == "mprop" else (q == 0)
        selfs.append(_mk_like(g, k, be, sys0 if same else sysl[rng.randrange(len(sysl))], mom))
    for d in (2, 3, 4):      # partners for binary methods, one per flavor
        s2 = [s_ for s_ in C.SYSTEMS if C.dim_of(s_) == d]
        sysp = s2[rng.randrange(len(s2))]
        bep = be if rng.random() < 0.7 else "obj"
        for q in range(2):
            if same:
                partners[q][d] = _mk_like(g, k, bep, sysp, q == 0)
            else:
                partners[q][d] = _mk_like(g, k, be if rng.random() < 0.7 else "obj", s2[rng.randrange(len(s2))], q == 0)
    progs = []
    for q in range(2):
        prog = []
        for which in ([q] if rng.random() < 0.5 else [q, 1 - q]):
            op = _call_for(g, selfs[which], kind, name)
            for pos, a_ in enumerate(op.get("a", [])[1:], start=1):
                if isinstance(a_, dict) and a_.get("$") == "p" and g.desc[a_["v"]].be in ("obj", "np", "ak", "akrec", "sym"):
                    want = g.desc[a_["v"]].dim
                    op["a"][pos] = P(partners[which][want])
            op["cat"] = "pair"
            prog.append(op)
        progs.append(prog)
    sched = {"kind": "sites", "seed": rng.randrange(1 << 30), "p": rng.choice((1.0, 1.0, 0.5)), "which": ["with", "store", "flag", "func"],
             "domain": "line", "observe": 2}
    if same:
        # "the other thread's whole call falls inside my window", for every window in which per-call state may sit on a
        # shared object
        sched = {"kind": "parkop", "seed": rng.randrange(1 << 30), "p": rng.choice((1.0, 0.5, 0.25)), "which": ["pstore", "store", "func", "glob"],
                 "domain": "line", "observe": 2}
    return _finish(g, k, progs, [], sched, niso=0)


def _numba_case(g, rng, t):
    """register_numba(): the child has never imported numba; first call, repeated calls (same and other thread),
    ordinary operations before / between / after."""
    _, variant = t
    nthreads = 1 if variant == 0 else 2
    k = _base_knobs(g, nthreads)
    k["backends"] = {"obj": True, "np": True, "ak": variant % 2 == 0, "sym": False}
    for d in (2, 3, 4):
        g.mk_obj(k, dim=d)
        g.mk_np(k, dim=d, shape=[3])
    reg = {"f": "vector.register_numba", "reg": "numba", "cat": "register"}
    progs = [_dispatching_ops(g, rng, 1, be=("obj", "np")) + [dict(reg)] + _dispatching_ops(g, rng, 2, be=("obj", "np")) + [dict(reg)]]
    if nthreads == 2:
        progs.append([dict(reg)] + _dispatching_ops(g, rng, 2, be=("obj", "np")) + [dict(reg)])
    sched = [{"kind": "sites", "p": 1.0}, {"kind": "sites", "p": 1.0}, {"kind": "parkop", "p": 1.0}, {"kind": "sites", "p": 0.5}, {"kind": "walk", "p": 0.3},
             {"kind": "parkop", "p": 0.5}][variant % 6]
    sched.update(seed=rng.randrange(1 << 30), which=["with", "store", "func", "glob"], domain="line", observe=0, observe_mut=0, unblock_after_s=60.0)
    return _finish(g, k, progs, [], sched, niso=0)


def _bad_op(g, rng, kind):
    if kind.startswith("nonnumeric"):
        bad = kind[len("nonnumeric"):]
        val = {"?": True, "c16": 1.0, "U3": "a", "m8[s]": 1}[bad]
        names = rng.choice((["x", "y"], ["rho", "phi", "z"], ["px", "py", "pz", "E"]))
        dtl = [[n, "f8"] for n in names]
        dtl[rng.randrange(len(names))][1] = bad
        row = [val if t_ == bad else 1.5 for _, t_ in dtl]
        if rng.random() < 0.5:
            return {"f": "vector.array", "a": [{"$": "rows", "v": [row]}], "k": {"dtype": {"$": "dtlist", "v": dtl}}}
        cls = f"vector.{'Momentum' if 'px' in names else 'Vector'}Numpy{len(names)}D"
        return {"f": cls, "a": [{"$": "rows", "v": [row]}], "k": {"dtype": {"$": "dtlist", "v": dtl}}}
    if kind == "badnames":
        return {"f": "vector.obj", "k": {"x": 1.0, "phi": 2.0}}
    if kind == "boolval":
        return {"f": "vector.obj", "k": {"x": True, "y": 2.0}}
    if kind == "missing":
        return {"f": "vector.obj", "k": {"x": 1.0, "y": 2.0, "t": 3.0}}
    if kind == "dup":
        return {"f": "vector.obj", "k": {"x": 1.0, "y": 2.0, "z": 1.0, "eta": 0.5}}
    if kind == "baddtype":
        return {"f": "vector.array", "a": [{"$": "rows", "v": [[1.0, 2.0]]}], "k": {"dtype": {"$": "dtlist", "v": [["x", "f8"], ["q", "f8"]]}}}
    if kind == "zip_notdict":
        return {"f": "vector.zip", "a": [[1.0, 2.0]]}
    if kind == "coordcls":
        return {"f": "vector.backends.numpy.AzimuthalNumpyXY", "a": [{"$": "rows", "v": [[1.0, 2.0]]}]}
    a = [j for j, d in enumerate(g.desc) if d.be == "np"]
    ja = a[0]
    c = [j for j in a if g.desc[j].dim != g.desc[ja].dim]
    return {"f": "." + rng.choice(("add", "dot", "equal", "isclose")), "a": [P(ja), P(c[0])]}


def _vrace_case(g, rng, t):
    _, t0name, bad = t
    k = _base_knobs(g, 2)
    k["backends"] = {"obj": True, "np": True, "ak": False, "sym": False}
    for d in (2, 3, 4):
        _mk_like(g, k, "np", [s_ for s_ in C.SYSTEMS if C.dim_of(s_) == d][rng.randrange(2 if d == 2 else 6)], rng.random() < 0.5)
        _mk_like(g, k, "np", [s_ for s_ in C.SYSTEMS if C.dim_of(s_) == d][rng.randrange(2 if d == 2 else 6)], rng.random() < 0.5)
    kind = "prop" if t0name in ("rho",) else ("to" if t0name.startswith("to_") and t0name not in G.METHODS else "meth")
    mind = G.METHODS.get(t0name, (2, []))[0]
    selfs = [j for j, d in enumerate(g.desc) if d.be == "np" and d.dim >= mind]
    prog0 = []
    for _ in range(2):
        op = _call_for(g, rng.choice(selfs), kind, t0name)
        op["cat"] = "vrace"
        prog0.append(op)
    prog1 = []
    for _ in range(3):
        o = _bad_op(g, rng, bad)
        o["cat"] = "vrace"
        prog1.append(o)
    sched = {"kind": "parkop", "seed": rng.randrange(1 << 30), "p": rng.choice((1.0, 0.5)), "which": ["store", "func", "with", "flag"], "domain": "line", "observe": 0}
    return _finish(g, k, [prog0, prog1], [], sched, niso=0)


def _mutsym_case(g, rng, t):
    _, variant = t
    k = _base_knobs(g, 1 + variant % 2)
    k["backends"] = {"obj": variant % 3 == 0, "np": False, "ak": False, "sym": True}
    k["cats"] = {c: 0 for c in k["cats"]}
    k["cats"]["mutate"] = 6
    k["cats"]["prop"] = 1
    k["nops"] = rng.choice((5, 8, 12))
    dim = 2 + variant % 3
    for _ in range(3):
        g.mk_sym(k, dim=dim)
    if k["backends"]["obj"]:
        g.mk_obj(k, dim=dim)
    progs = g.build_progs(k)
    sched = {"kind": rng.choice(("walk", "sites")), "seed": rng.randrange(1 << 30), "p": 0.3, "which": ["with", "store", "func"], "domain": "line", "observe": 2}
    return _finish(g, k, progs, [], sched, niso=1)


def _manyclasses_case(g, rng, t):
    _, variant = t
    nth = 2 + variant % 2
    k = _base_knobs(g, nth)
    k["awk_mode"] = "registered_before" if variant % 4 == 0 else "unregistered"
    slots = []
    for be in ("obj", "np", "ak"):
        for d in (2, 3, 4):
            sysl = [s_ for s_ in C.SYSTEMS if C.dim_of(s_) == d]
            for mom in (False, True):
                slots.append(_mk_like(g, k, be, sysl[rng.randrange(len(sysl))], mom))
    recs = []
    for j in list(slots):
        if g.desc[j].be == "ak" and g.desc[j].lay == "flat":
            recs.append(g.add({"f": "vecsim.getitem", "a": [P(j), 0]}, be="akrec", dim=g.desc[j].dim, mom=g.desc[j].mom, sys=g.desc[j].sys))
    slots += recs
    if variant % 3 == 0:
        for d in (2, 3, 4):
            slots.append(g.mk_sym(k, dim=d))
    progs = []
    for q in range(nth):
        prog = []
        for _round in range(2):      # twice round all classes: bounded tables evict and refill
            order = list(slots)
            rng.shuffle(order)
            for j in order:
                w = rng.random()
                if w < 0.25:
                    prog.append({"f": "." + rng.choice(("rho", "phi", "x")), "a": [P(j)], "attr": 1, "cat": "manyclasses"})
                elif w < 0.8:
                    prog.append({"f": "." + rng.choice(("add", "subtract", "dot", "deltaphi")), "a": [P(j), P(j)], "cat": "manyclasses"})
                else:
                    prog.append({"f": "." + rng.choice(("to_xy", "to_rhophi", "unit")), "a": [P(j)], "cat": "manyclasses"})
        progs.append(prog)
    sched = {"kind": "parkop" if variant % 2 == 0 else "sites", "seed": rng.randrange(1 << 30), "p": rng.choice((1.0, 0.5, 0.25)),
             "which": ["glob", "store"], "domain": "line", "observe": 0, "observe_mut": 0}
    return _finish(g, k, progs, [], sched, niso=0)
