"""Cold-start pass: a fresh interpreter in which `vector` has only just been imported - none of the compute
modules that its methods import lazily.  The threads race on first use, so those imports happen under the
scheduler (an import in flight makes the thread non-pre-emptible).  Only outcome agreement and progress are judged.

stdin: pickle (world, pspec)   stdout: pickle result"""

from __future__ import annotations

import pickle
import sys


def main():
    from . import env

    env.setup_path()
    from . import sched

    sched.install_lock_seam()
    import vector  # noqa: F401  (top level only: backends, not vector._compute.*)

    world, pspec = pickle.loads(sys.stdin.buffer.read())
    from . import world as W

    res = W.run_pass(world, pspec, vector)
    res["cold_compute_modules_before"] = 0
    sys.stdout.buffer.write(pickle.dumps(res, protocol=4))


if __name__ == "__main__":
    main()
