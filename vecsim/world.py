"""Execution of one pass of a world inside a (forked) child, with the invariants
I1 (process-wide state), I2 (operands untouched), I3 (results durable) evaluated
while the run proceeds.  I4 (outcomes independent of history/schedule) is
evaluated by the parent over the outcome tables of several passes."""

from __future__ import annotations

import random
import warnings

import numpy

from . import faults, ops, snapshot
from .ops import Env, _Raised
from .sched import Policy, Scheduler, Stall


class _Skipped:
    _vecsim_skipped = True


SKIPPED = _Skipped()


def closure(world, target):
    """Ops needed to run `target` ("P", j) or ("T", k, i) in isolation."""
    pool_need = set()
    t_need = set()
    progs = world["progs"]
    pool = world["pool"]

    def need_pool(j):
        if j in pool_need:
            return
        pool_need.add(j)
        for t, v in ops.op_refs(pool[j]):
            if t == "p":
                need_pool(v)

    def need_t(k, i):
        if (k, i) in t_need:
            return
        t_need.add((k, i))
        op = progs[k][i]
        for t, v in ops.op_refs(op):
            if t == "p":
                need_pool(v)
            elif t == "r":
                need_t(k, v)
            elif t == "m":
                # every earlier op of this thread that defines or touches the private slot
                for i2 in range(i):
                    o2 = progs[k][i2]
                    if o2.get("defm") == v or o2.get("bind") == v or ("m", v) in ops.op_refs(o2):
                        need_t(k, i2)

    if target[0] == "P":
        need_pool(target[1])
    else:
        need_t(target[1], target[2])
    return pool_need, t_need


def _viol(prop, inv, aspect, site, pname, detail=""):
    return {"prop": prop, "inv": inv, "aspect": aspect, "site": site, "pass": pname, "detail": str(detail)[:600]}


def apply_config(cfg, vector):
    wf = cfg.get("warnfilter", "default")
    if wf != "default":
        warnings.simplefilter(wf)
    po = cfg.get("printopts")
    if po:
        numpy.set_printoptions(**po)  # main thread's context (pool construction)
    if cfg.get("awk_mode") == "registered_before":
        vector.register_awkward()
    if cfg.get("simlib"):
        faults.install_simlib(vector)


def run_pass(world, pspec, vector):
    """Run one pass.  pspec: {"name", "sched": {...policy...}, "iso": target|None, "want_list": bool}"""
    cfg = world["config"]
    pname = pspec["name"]
    apply_config(cfg, vector)
    viol: list = []
    outcomes: dict = {}
    stats = {"ops": 0, "ok": 0, "raised": 0, "depfail": 0, "faults_planned": 0, "faults_fired": {"lib": 0, "flt": 0, "alloc": 0},
             "natural_exc": {}, "mut_ops": 0, "i2_checks": 0, "i1_checks": 0, "observed": 0}
    pool_ops = world["pool"]
    progs = world["progs"]
    nthreads = len(progs)
    iso = pspec.get("iso")
    if iso is not None:
        pool_need, t_need = closure(world, tuple(iso))
    else:
        pool_need = t_need = None

    plan = {}
    for f in world.get("faults", ()):
        plan.setdefault((f["t"], f["i"]), {})[f["seam"]] = (f["n"], f["exc"])
    stats["faults_planned"] = sum(len(v) for v in plan.values())

    reached: set = set()
    if world.get("reach"):
        _install_reach_probe(reached)
    gexp = snapshot.global_state()
    g0 = dict(gexp)
    gfull0 = snapshot.global_state(full=True)
    serial_like = pspec["sched"]["kind"] in ("serial", "opgran")

    pool: list = []
    pool_snaps: list = []
    rid: set = set()
    want_cells = bool(pspec.get("cells"))
    cells: set = set()

    def check_global(site, precise):
        nonlocal gexp
        stats["i1_checks"] += 1
        now = snapshot.global_state()
        if now != gexp:
            for key in snapshot.state_diff(gexp, now):
                viol.append(_viol("C20", "I1", f"global:{key}", site if precise else "unattributed", pname,
                                  f"{key} changed"))
            gexp = now

    def allowed_register(site, before):
        """register_awkward(): only awkward.behavior may grow by vector's entries, flag -> True."""
        nonlocal gexp
        import awkward
        import vector.backends.awkward as vaw

        now = snapshot.global_state()
        for key in snapshot.state_diff(before, now):
            if key not in ("awkward.behavior", "_awkward_registered"):
                # other ops may be in flight in an interleaved pass: then the culprit is not known yet
                viol.append(_viol("C20", "I1", f"global:{key}", site if serial_like else "unattributed", pname,
                                  "changed while register_awkward() ran"))
        if now["_awkward_registered"] is not True:
            viol.append(_viol("C20", "I1", "register:flag", site, pname, "flag not True after register_awkward()"))
        okeys = before["awkward.behavior"][1]
        oids = before["awkward.behavior"][2]
        old = dict(zip(okeys, oids))
        for k_, v_ in awkward.behavior.items():
            if k_ in vaw.behavior:
                if v_ is not vaw.behavior[k_]:
                    viol.append(_viol("C20", "I1", "register:entry", site, pname, f"{k_!r} not vector's entry"))
            elif old.get(k_) != id(v_):
                viol.append(_viol("C20", "I1", "register:foreign-entry", site, pname, f"{k_!r} added/changed"))
        for k_ in vaw.behavior:
            if k_ not in awkward.behavior:
                viol.append(_viol("C20", "I1", "register:missing", site, pname, f"{k_!r} missing"))
        for k_ in okeys:
            if k_ not in awkward.behavior:
                viol.append(_viol("C20", "I1", "register:removed", site, pname, f"{k_!r} removed"))
        if before["_awkward_registered"] and now["awkward.behavior"] != before["awkward.behavior"]:
            viol.append(_viol("C20", "I1", "register:not-idempotent", site, pname, "second call changed awkward.behavior"))
        gexp = now

    def numba_sizes():
        import sys as _sys

        if "numba" not in _sys.modules:
            return None
        import numba.extending
        from numba.core.datamodel.registry import default_manager

        return (len(numba.extending.typeof_impl.registry), len(default_manager._handlers), len(_sys.modules),
                id(_sys.modules.get("vector.backends._numba_object")), id(_sys.modules.get("vector.backends.numba_numpy")))

    numba_seen = [None]

    def allowed_register_numba(site, before_g, sizes_before):
        """register_numba(): none of the watched process-wide state may change; a repeated call changes nothing at all."""
        nonlocal gexp
        now = snapshot.global_state()
        for key in snapshot.state_diff(before_g, now):
            viol.append(_viol("C20", "I1", f"global:{key}", site if serial_like else "unattributed", pname, "changed while register_numba() ran"))
        gexp = now
        sizes = numba_sizes()
        if sizes_before is not None and numba_seen[0] and sizes != sizes_before:
            viol.append(_viol("C20", "I1", "register_numba:not-idempotent", site, pname, f"numba registries / modules {sizes_before} -> {sizes}"))
        numba_seen[0] = True

    def check_pool(site, only=None, cheap_only=False):
        stats["i2_checks"] += 1
        idx = range(len(pool_snaps)) if only is None else only
        for j in idx:
            if j >= len(pool_snaps) or pool_snaps[j] is None:
                continue
            if cheap_only and pool_snaps[j][0] in ("ak", "akrec") and j not in cheap_only:
                continue
            try:
                now = snapshot.snap(pool[j])
            except faults.CATCH as e:
                now = ("unsnappable", type(e).__name__, str(e)[:100])
            if now != pool_snaps[j]:
                viol.append(_viol("C16", "I2", snapshot.snap_diff(pool_snaps[j], now) or "changed", site, pname,
                                  f"pool slot {j} ({ops.brief(pool_ops[j])}) modified"))
                pool_snaps[j] = now

    # ------------------------------------------------------------------ pool
    env0 = Env(pool)
    tstate0 = snapshot.thread_state()
    for j, op in enumerate(pool_ops):
        if pool_need is not None and j not in pool_need:
            pool.append(SKIPPED)
            pool_snaps.append(None)
            continue
        site = f"P:{j}:{op['f']}"
        before_g = gexp
        ctx = faults.OpCtx(plan.get(("P", j)))
        faults.set_ctx(ctx)
        try:
            val = ops.exec_op(op, env0)
            stats["ok"] += 1
        except ops.DependencyFailed as e:
            val = _Raised(e)
            stats["depfail"] += 1
        except faults.CATCH as e:
            val = _Raised(e)
            stats["raised"] += 1
            if not getattr(e, "vecsim_injected", False):
                stats["natural_exc"][type(e).__name__] = stats["natural_exc"].get(type(e).__name__, 0) + 1
        finally:
            faults.set_ctx(None)
        for fk in ctx.fired:
            stats["faults_fired"][fk[0]] += 1
            if fk[3] == "SimCancel":
                stats["faults_fired"]["cancel"] = stats["faults_fired"].get("cancel", 0) + 1
            if fk[3] == "Reenter":
                stats["faults_fired"]["reenter"] = stats["faults_fired"].get("reenter", 0) + 1
        stats["ops"] += 1
        pool.append(val)
        outcomes[f"P:{j}"] = _outcome(val)
        if snapshot.thread_state() != tstate0:
            viol.append(_viol("C20", "I1", _tdiff(tstate0, snapshot.thread_state()), site, pname, f"{tstate0} -> {snapshot.thread_state()}"))
            tstate0 = snapshot.thread_state()
        if op.get("reg") == "awkward":
            allowed_register(site, before_g)
        else:
            check_global(site, True)
        check_pool(site)
        try:
            pool_snaps.append(None if isinstance(val, _Raised) else snapshot.snap(val))
        except faults.CATCH as e:
            pool_snaps.append(None)
    # writes allowed by a pool op to earlier slots are not generated; nothing to re-snap.

    # --------------------------------------------------------------- threads
    results = [[None] * len(p) for p in progs]
    regviews = [[None] * len(p) for p in progs]   # registration state seen by an op and by everything it was built from
    mviews = [dict() for _ in progs]
    res_dig = [[None] * len(p) for p in progs]
    privs = [dict() for _ in progs]
    ever_priv = [[] for _ in progs]     # every object that has been a private target (an in-place op may rebind the slot)
    priv_snaps = [dict() for _ in progs]
    tstates = [None] * nthreads
    sch = pspec["sched"]
    rng = random.Random(sch.get("seed", 0))
    est = max(sum(len(p) for p in progs) * 150, 200)
    policy = Policy(sch["kind"], rng=rng, p=sch.get("p", 0.1), q=sch.get("q", 50), d=sch.get("d", 2), est=est,
                    sites=frozenset(sch.get("sites", ())), order=sch.get("order"), explicit=sch.get("explicit"),
                    domain=sch.get("domain", "line"))
    nobs = sch.get("observe", 0)
    observe_at = sorted(rng.randrange(1, est) for _ in range(nobs)) if nobs else ()

    def observer(k, kind, loc):
        stats["observed"] += 1
        check_pool(f"observer@{loc}")

    def on_quiescent(k):
        check_global(f"quiescent(after T:{k}:{sched.opidx[k]})", False)

    obs_every = sch.get("observe_mut", 0 if serial_like else 1)
    osites = frozenset()
    if obs_every and not serial_like:
        from . import sites as _sites

        osites = frozenset(_sites.get()["mut"])
    sched = Scheduler(nthreads, policy, cap=sch.get("cap", 200_000), observer=observer if (nobs or osites) else None,
                      observe_at=observe_at, on_quiescent=None if serial_like else on_quiescent,
                      observe_sites=osites, observe_every=obs_every)

    def body(k):
        sched.atomic[k] += 1
        es = cfg.get("errstate") or []
        if k < len(es) and es[k]:
            numpy.seterr(**es[k])
        if cfg.get("printopts"):
            numpy.set_printoptions(**cfg["printopts"])  # context-local in numpy >= 2
        tstates[k] = snapshot.thread_state()
        env = Env(pool, results[k], privs[k])
        prog = progs[k]
        sched.atomic[k] -= 1
        for i, op in enumerate(prog):
            if t_need is not None and (k, i) not in t_need:
                results[k][i] = _Raised(ops.DependencyFailed("skipped"))
                continue
            sched.op_begin(k, i)
            sched.atomic[k] += 1
            site = f"T:{k}:{i}:{op['f']}"
            before_g = gexp
            nb_before = numba_sizes() if op.get("reg") == "numba" else None
            regb = _reg_state(vector)
            ctx = faults.OpCtx(plan.get((k, i)))
            faults.set_ctx(ctx)
            sched.atomic[k] -= 1
            try:
                val = ops.exec_op(op, env)
                ok = True
            except ops.DependencyFailed as e:
                val = _Raised(e)
                ok = None
            except faults.CATCH as e:
                val = _Raised(e)
                ok = False
            sched.atomic[k] += 1
            faults.set_ctx(None)
            stats["ops"] += 1
            if ok:
                stats["ok"] += 1
            elif ok is None:
                stats["depfail"] += 1
            else:
                stats["raised"] += 1
                if not getattr(val.exc, "vecsim_injected", False):
                    n = type(val.exc).__name__
                    stats["natural_exc"][n] = stats["natural_exc"].get(n, 0) + 1
                tb = val.exc.__traceback__
                while tb is not None:
                    co = tb.tb_frame.f_code
                    if co.co_name == "dispatch" and "_compute" in co.co_filename:
                        rid.add(co.co_filename.split("_compute")[-1].strip("/"))
                    tb = tb.tb_next
            for fk in ctx.fired:
                stats["faults_fired"][fk[0]] += 1
                if fk[3] == "SimCancel":
                    stats["faults_fired"]["cancel"] = stats["faults_fired"].get("cancel", 0) + 1
                if fk[3] == "Reenter":
                    stats["faults_fired"]["reenter"] = stats["faults_fired"].get("reenter", 0) + 1
            results[k][i] = val
            written = ops.written_refs(op)
            wpriv = [v_ for t_, v_ in written if t_ == "m" and v_ in privs[k]]
            rb, ra = regb, _reg_state(vector)
            for t_, v_ in ops.op_refs(op):
                dv = regviews[k][v_] if t_ == "r" and 0 <= v_ < i else (mviews[k].get(v_) if t_ == "m" else None)
                if dv is not None and (rb, ra) != tuple(dv):
                    rb, ra = 0, 2  # built from values that saw another registration state: not comparable
            regviews[k][i] = (rb, ra)
            for key_ in ("bind", "defm"):
                if key_ in op:
                    mviews[k][op[key_]] = (rb, ra)
            oc = _outcome(val)
            plain_digest = oc[0]
            if wpriv:
                # the state an in-place op leaves behind is part of its outcome (schedule independence of updates)
                post = tuple(_outcome(privs[k][v_])[0] for v_ in wpriv)
                oc = (snapshot.hashlib.sha256(repr((oc[0], post)).encode()).hexdigest()[:20], oc[1] + " | target after: " + ",".join(_outcome(privs[k][v_])[1][:60] for v_ in wpriv))
                if isinstance(val, _Raised) and not isinstance(val.exc, ops.DependencyFailed):
                    import vector.backends.object as _vob

                    for v_ in wpriv:
                        m_ = privs[k][v_]
                        if isinstance(m_, _vob.VectorObject) and v_ in priv_snaps[k]:
                            now_ = snapshot.snap(m_)
                            before_ = priv_snaps[k][v_]
                            if _strip_ids(now_) != _strip_ids(before_):
                                viol.append(_viol("C15", "I5", "raised-but-changed", site, pname,
                                                  f"{type(val.exc).__name__}: in-place op raised but m{v_} changed: {snapshot.snap_diff(before_, now_)}"))
            oc = oc + (rb, ra, _akdep(op, env, val))
            outcomes[f"T:{k}:{i}"] = oc
            if want_cells:
                cells.add(_cell(op, env, val))
            res_dig[k][i] = plain_digest
            # rebinding / private definition
            if written:
                stats["mut_ops"] += 1
            if "bind" in op and not isinstance(val, _Raised):
                privs[k][op["bind"]] = val
                ever_priv[k].append(val)
            if "defm" in op and not isinstance(val, _Raised):
                privs[k][op["defm"]] = val
                ever_priv[k].append(val)
            # I1 thread-local
            ts = snapshot.thread_state()
            if ts != tstates[k]:
                viol.append(_viol("C20", "I1", _tdiff(tstates[k], ts), site, pname, f"{tstates[k]} -> {ts}"))
                tstates[k] = ts
            # I1 global: precise only when no other op can be in flight
            if op.get("reg") == "awkward":
                allowed_register(site, before_g)
            elif op.get("reg") == "numba":
                allowed_register_numba(site, before_g, nb_before)
            elif serial_like:
                check_global(site, True)
            # I2: pool operands (all in serial-like passes, the op's own operands otherwise)
            mine = [v for t, v in ops.op_refs(op) if t == "p"]
            if serial_like:
                # everything cheap after every op; Awkward slots when they are operands, every 8th op and at the end
                check_pool(site, cheap_only=() if i % 8 == 7 else (set(mine) or {-1}))
            else:
                check_pool(site, only=mine)
            # privates: those not written must be unchanged; written ones are re-snapped
            wm = {v for t, v in written if t == "m"}
            if "bind" in op:
                wm.add(op["bind"])
            if "defm" in op:
                wm.add(op["defm"])
            for j, m in privs[k].items():
                try:
                    now = snapshot.snap(m)
                except faults.CATCH as e:
                    now = ("unsnappable", type(e).__name__)
                if j in wm or j not in priv_snaps[k]:
                    priv_snaps[k][j] = now
                elif now != priv_snaps[k][j]:
                    if ("m", j) in ops.op_refs(op):
                        viol.append(_viol("C16", "I2", snapshot.snap_diff(priv_snaps[k][j], now) or "changed", site, pname,
                                          f"private operand m{j} modified by a non-mutating op"))
                    else:
                        viol.append(_viol("C16", "I2", "foreign:" + (snapshot.snap_diff(priv_snaps[k][j], now) or "changed"),
                                          site, pname, f"private object m{j} of thread {k} changed by somebody else"))
                    priv_snaps[k][j] = now
            sched.atomic[k] -= 1
            sched.op_end(k, i)

    sched.unblock_after_s = float(sch.get("unblock_after_s", 8.0))
    stall = None
    try:
        sched.run(body, watchdog_s=pspec.get("watchdog_s", 90.0))
    except Stall as e:
        stall = str(e)

    for (k_, owner_, oi_) in sched.deadlocks:
        op_ = progs[k_][oi_] if 0 <= oi_ < len(progs[k_]) else {"f": "?"}
        viol.append(_viol("C20", "I7", "deadlock", f"T:{k_}:{oi_}:{op_['f']}", pname,
                          (f"thread {k_} waits for a lock still held by thread {owner_}, which has finished" if owner_ is not None else
                           f"thread {k_} waits for a notification nobody is left to send") + ": the call can never return"))
    # ------------------------------------------------------------------- end
    if stall is None:
        check_pool("end")
        now = snapshot.global_state()
        if now != gexp:
            for key in snapshot.state_diff(gexp, now):
                viol.append(_viol("C20", "I1", f"global:{key}", "end", pname, f"{key} differs at end of run"))
        gfull1 = snapshot.global_state(full=True)
        for key in snapshot.state_diff(gfull0, gfull1):
            if key not in gexp:      # the keys watched op by op were reported above
                viol.append(_viol("C20", "I1", f"global:{key}", "end", pname, f"{key} differs at end of run"))
        # I3: results still what they were when returned
        for k in range(nthreads):
            pl = [m for m in privs[k].values()] + ever_priv[k]
            for i, val in enumerate(results[k]):
                if res_dig[k][i] is None or isinstance(val, _Raised):
                    continue
                op = progs[k][i]
                if "bind" in op or "defm" in op or _aliases(val, pl):
                    continue
                d = _outcome(val)[0]
                if d != res_dig[k][i]:
                    viol.append(_viol("C20", "I3", "result-changed-later", f"T:{k}:{i}:{op['f']}", pname,
                                      "value returned earlier is different at end of run"))
    out = {
        "name": pname,
        "outcomes": outcomes,
        "viol": viol,
        "stats": stats,
        "sched": {"digest": sched.digest(), "points": sched.npoints, "switches": sched.nswitch,
                  "switches_inop": sched.nswitch_inop, "capped": sched.capped, "quiescent": sched.nquiescent,
                  "diverged": policy.diverged, "unblocked": sched.unblocked, "lockwaits": sched.nlockwaits},
        "errors": list(sched.errors),
        "stall": stall,
        "lib_calls": faults.counters.lib_calls,
        "flt_calls": faults.counters.flt_calls,
    }
    out["raised_in_dispatch"] = sorted(rid)
    out["variants"] = sorted(reached)
    if want_cells:
        out["cells"] = sorted(cells)
    if pspec.get("want_list"):
        out["sched"]["list"] = sched.switch_list()
    if pspec.get("want_diag"):
        out["diag"] = {k_: v_ for k_, v_ in snapshot.vector_owned_state().items()}
    return out


def _reg_state(vector):
    """0 = not registered, 2 = registered, 1 = register_awkward() is half-way (the registry is updated
    before the flag is set): outcomes seen in state 1, or across a change of state, are not comparable."""
    import awkward

    flag = bool(vector._awkward_registered)
    have = ("*", "Vector2D") in awkward.behavior
    if flag and have:
        return 2
    if not flag and not have:
        return 0
    return 1


def _strip_ids(sn):
    """vobj snapshot without the identities of the coordinate tuples (an equal rebuilt tuple is 'unchanged')."""
    if sn and sn[0] == "vobj":
        return ("vobj", tuple(p if isinstance(p, str) else (p[0], p[2]) for p in sn[1]))
    return sn


def _install_reach_probe(acc):
    """Measure reach exactly: every dispatch() looks its variant up through _from_signature(name, map, signature);
    in this (forked, throw-away) child that lookup is wrapped to record (module, signature)."""
    import sys

    import vector._methods as vm

    orig = vm._from_signature

    def probe(name, dispatch_map, signature):
        acc.add(name.replace("vector._compute.", "") + ":" + ",".join(getattr(x, "__name__", str(x)) for x in signature))
        return orig(name, dispatch_map, signature)

    for mname, mod in list(sys.modules.items()):
        if mname.startswith("vector._compute.") and getattr(mod, "_from_signature", None) is orig:
            mod._from_signature = probe


def _kind_of(x):
    """Backend class + stored coordinate system of an operand (for the reach table)."""
    n = type(x).__name__
    for g in ("azimuthal", "longitudinal", "temporal"):
        try:
            c = getattr(x, g)
        except Exception:
            break
        cn = type(c).__name__
        for suf in ("RhoPhi", "XY", "Theta", "Eta", "Tau", "Z", "T"):
            if cn.endswith(suf):
                n += "." + suf
                break
    return n


def _cell(op, env, val):
    parts = [op["f"]]
    for a in op.get("a", ()):
        if isinstance(a, dict) and a.get("$") in ("p", "m", "r"):
            try:
                parts.append(_kind_of(ops.decode(a, env)))
            except Exception:
                parts.append("?")
    parts.append("exc:" + type(val.exc).__name__ if isinstance(val, _Raised) else "ok:" + type(val).__name__)
    return "|".join(parts)


def _akdep(op, env, val):
    """Does the op involve Awkward values (whose class resolution may go through the global registry)?"""
    import awkward as ak

    if op["f"].startswith(("vector.Array", "vector.zip", "vector.awk", "awkward.")):
        return True
    if isinstance(val, (ak.Array, ak.Record)):
        return True
    for t, v in ops.op_refs(op):
        try:
            x = ops.decode({"$": t, "v": v}, env)
        except Exception:
            return True  # depends on something that failed: may itself be registration-dependent
        if isinstance(x, (ak.Array, ak.Record)):
            return True
    return False


def _tdiff(a, b):
    names = ("errstate", "errcall", "bufsize", "printoptions")
    return "thread:" + ",".join(n for n, x, y in zip(names, a, b) if x != y)


def _outcome(val):
    if isinstance(val, _Raised):
        e = val.exc
        if isinstance(e, ops.DependencyFailed):
            return ("dep", "dep")
        c = snapshot.canon_exc(e)
        return (snapshot.hashlib.sha256(repr(c).encode()).hexdigest()[:20], f"raise {c[1]}: {c[2][:90]}")
    try:
        c = snapshot.canon(val)
    except faults.CATCH as e:  # a value we cannot even look at is itself an outcome
        c = ["UNCANON", type(val).__name__, type(e).__name__, str(e)[:100]]
    s = repr(c)
    return (snapshot.hashlib.sha256(s.encode()).hexdigest()[:20], s[:120])


def _aliases(val, privs):
    for m in privs:
        if val is m:
            return True
        if isinstance(val, numpy.ndarray) and isinstance(m, numpy.ndarray):
            try:
                if numpy.may_share_memory(val.view(numpy.ndarray), m.view(numpy.ndarray)):
                    return True
            except Exception:
                return True
    return False
